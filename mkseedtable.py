#!/usr/bin/env python3
# rewrites the seed table at the end of DESIGN.md from seeded/*/meta.json
import json,glob
s=open('/verif/DESIGN.md').read()
i=s.index('<!-- SEEDTABLE -->')
rows=[]
for f in sorted(glob.glob('/verif/seeded/*/meta.json')):
    m=json.load(open(f))
    cl=lambda t,n:(t.replace('\n',' ').replace('|','/')[:n]+('…' if len(t)>n else ''))
    rows.append("| %s | %s | %s | %s |"%(m['id'],cl(m['breaks'],170),cl(m['needs_to_manifest'],150),", ".join(m['caught_by'])))
s=s[:i]+'<!-- SEEDTABLE -->\n\n%d seeds kept:\n\n| seed | change | needs | caught by |\n|---|---|---|---|\n'%len(rows)+"\n".join(rows)+"\n"
open('/verif/DESIGN.md','w').write(s)
print(len(rows),'seeds')
