//go:build !race

package core

// RaceEnabled reports whether this binary was built with the race detector.
const RaceEnabled = false
