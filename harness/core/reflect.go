package core

import (
	"fmt"
	"reflect"
	"strconv"
	"strings"
)

// Flatten walks a struct value (or pointer to one) and returns its numeric
// leaves in declaration order: bools as 0/1, integers as int64, fixed arrays
// element by element, nested structs recursively. Unexported fields are
// skipped. Slices, maps, pointers and interfaces inside are not supported.
func Flatten(v interface{}) ([]int64, error) {
	rv := reflect.ValueOf(v)
	for rv.Kind() == reflect.Ptr {
		rv = rv.Elem()
	}
	var out []int64
	err := flatten(rv, &out)
	return out, err
}

func flatten(rv reflect.Value, out *[]int64) error {
	switch rv.Kind() {
	case reflect.Bool:
		if rv.Bool() {
			*out = append(*out, 1)
		} else {
			*out = append(*out, 0)
		}
	case reflect.Int, reflect.Int8, reflect.Int16, reflect.Int32, reflect.Int64:
		*out = append(*out, rv.Int())
	case reflect.Uint, reflect.Uint8, reflect.Uint16, reflect.Uint32, reflect.Uint64:
		*out = append(*out, int64(rv.Uint()))
	case reflect.Array:
		for i := 0; i < rv.Len(); i++ {
			if err := flatten(rv.Index(i), out); err != nil {
				return err
			}
		}
	case reflect.Struct:
		t := rv.Type()
		for i := 0; i < rv.NumField(); i++ {
			if t.Field(i).PkgPath != "" {
				continue
			}
			if err := flatten(rv.Field(i), out); err != nil {
				return err
			}
		}
	default:
		return fmt.Errorf("flatten: unsupported kind %s", rv.Kind())
	}
	return nil
}

// Fill is the inverse of Flatten: it stores vals into the leaves of *ptr.
// Values are converted with Go's wrapping conversion (so an out-of-range
// value for a uint8 leaf cannot be stored; callers generate per leaf type).
func Fill(ptr interface{}, vals []int64) error {
	rv := reflect.ValueOf(ptr)
	if rv.Kind() != reflect.Ptr {
		return fmt.Errorf("fill: pointer expected")
	}
	rest, err := fill(rv.Elem(), vals)
	if err != nil {
		return err
	}
	if len(rest) != 0 {
		return fmt.Errorf("fill: %d values left over", len(rest))
	}
	return nil
}

func fill(rv reflect.Value, vals []int64) ([]int64, error) {
	switch rv.Kind() {
	case reflect.Bool:
		if len(vals) == 0 {
			return nil, fmt.Errorf("fill: out of values")
		}
		rv.SetBool(vals[0] != 0)
		return vals[1:], nil
	case reflect.Int, reflect.Int8, reflect.Int16, reflect.Int32, reflect.Int64:
		if len(vals) == 0 {
			return nil, fmt.Errorf("fill: out of values")
		}
		rv.SetInt(vals[0])
		return vals[1:], nil
	case reflect.Uint, reflect.Uint8, reflect.Uint16, reflect.Uint32, reflect.Uint64:
		if len(vals) == 0 {
			return nil, fmt.Errorf("fill: out of values")
		}
		rv.SetUint(uint64(vals[0]))
		return vals[1:], nil
	case reflect.Array:
		var err error
		for i := 0; i < rv.Len(); i++ {
			if vals, err = fill(rv.Index(i), vals); err != nil {
				return nil, err
			}
		}
		return vals, nil
	case reflect.Struct:
		t := rv.Type()
		var err error
		for i := 0; i < rv.NumField(); i++ {
			if t.Field(i).PkgPath != "" {
				continue
			}
			if vals, err = fill(rv.Field(i), vals); err != nil {
				return nil, err
			}
		}
		return vals, nil
	}
	return nil, fmt.Errorf("fill: unsupported kind %s", rv.Kind())
}

// LeafKinds returns, for each leaf Flatten would produce, the reflect.Kind.
func LeafKinds(v interface{}) []reflect.Kind {
	rv := reflect.ValueOf(v)
	for rv.Kind() == reflect.Ptr {
		rv = rv.Elem()
	}
	var out []reflect.Kind
	leafKinds(rv, &out)
	return out
}

func leafKinds(rv reflect.Value, out *[]reflect.Kind) {
	switch rv.Kind() {
	case reflect.Array:
		for i := 0; i < rv.Len(); i++ {
			leafKinds(rv.Index(i), out)
		}
	case reflect.Struct:
		t := rv.Type()
		for i := 0; i < rv.NumField(); i++ {
			if t.Field(i).PkgPath != "" {
				continue
			}
			leafKinds(rv.Field(i), out)
		}
	default:
		*out = append(*out, rv.Kind())
	}
}

// KindRange returns the value range of an integer kind.
func KindRange(k reflect.Kind) (lo, hi int64) {
	switch k {
	case reflect.Bool:
		return 0, 1
	case reflect.Uint8:
		return 0, 255
	case reflect.Int8:
		return -128, 127
	case reflect.Uint16:
		return 0, 65535
	case reflect.Int16:
		return -32768, 32767
	case reflect.Uint32:
		return 0, 1<<32 - 1
	case reflect.Int32:
		return -(1 << 31), 1<<31 - 1
	case reflect.Int, reflect.Int64:
		return -(1 << 62), 1 << 62
	case reflect.Uint, reflect.Uint64:
		return 0, 1 << 62
	}
	return 0, 0
}

// Dump renders any value (following pointers, interfaces and slices, reading
// unexported fields too) into a canonical string. nil and empty slices render
// the same. Two values are "deeply equal" for the monitors iff their dumps
// are equal; the dump doubles as the explanation in violation reports.
func Dump(v interface{}) string {
	var sb strings.Builder
	dump(&sb, reflect.ValueOf(v), 0)
	return sb.String()
}

func dump(sb *strings.Builder, rv reflect.Value, depth int) {
	if depth > 40 {
		sb.WriteString("<deep>")
		return
	}
	if !rv.IsValid() {
		sb.WriteString("nil")
		return
	}
	switch rv.Kind() {
	case reflect.Ptr:
		if rv.IsNil() {
			sb.WriteString("nil")
			return
		}
		sb.WriteByte('&')
		dump(sb, rv.Elem(), depth+1)
	case reflect.Interface:
		if rv.IsNil() {
			sb.WriteString("nil")
			return
		}
		dump(sb, rv.Elem(), depth+1)
	case reflect.Struct:
		t := rv.Type()
		sb.WriteString(t.Name())
		sb.WriteByte('{')
		for i := 0; i < rv.NumField(); i++ {
			if i > 0 {
				sb.WriteByte(' ')
			}
			sb.WriteString(t.Field(i).Name)
			sb.WriteByte(':')
			dump(sb, rv.Field(i), depth+1)
		}
		sb.WriteByte('}')
	case reflect.Slice, reflect.Array:
		if rv.Type().Elem().Kind() == reflect.Uint8 {
			sb.WriteString("x")
			for i := 0; i < rv.Len(); i++ {
				b := byte(rv.Index(i).Uint())
				sb.WriteByte("0123456789abcdef"[b>>4])
				sb.WriteByte("0123456789abcdef"[b&15])
			}
			return
		}
		sb.WriteByte('[')
		for i := 0; i < rv.Len(); i++ {
			if i > 0 {
				sb.WriteByte(' ')
			}
			dump(sb, rv.Index(i), depth+1)
		}
		sb.WriteByte(']')
	case reflect.Map:
		sb.WriteString("map[")
		keys := rv.MapKeys()
		strs := make([]string, 0, len(keys))
		for _, k := range keys {
			var kb, vb strings.Builder
			dump(&kb, k, depth+1)
			dump(&vb, rv.MapIndex(k), depth+1)
			strs = append(strs, kb.String()+":"+vb.String())
		}
		sortStrings(strs)
		sb.WriteString(strings.Join(strs, " "))
		sb.WriteByte(']')
	case reflect.Bool:
		if rv.Bool() {
			sb.WriteByte('T')
		} else {
			sb.WriteByte('F')
		}
	case reflect.Int, reflect.Int8, reflect.Int16, reflect.Int32, reflect.Int64:
		sb.WriteString(strconv.FormatInt(rv.Int(), 10))
	case reflect.Uint, reflect.Uint8, reflect.Uint16, reflect.Uint32, reflect.Uint64, reflect.Uintptr:
		sb.WriteString(strconv.FormatUint(rv.Uint(), 10))
	case reflect.Float32, reflect.Float64:
		sb.WriteString(strconv.FormatFloat(rv.Float(), 'g', -1, 64))
	case reflect.String:
		sb.WriteString(strconv.Quote(rv.String()))
	case reflect.Func, reflect.Chan, reflect.UnsafePointer:
		if rv.IsNil() {
			sb.WriteString("nil")
		} else {
			sb.WriteString("<" + rv.Kind().String() + ">")
		}
	default:
		sb.WriteString("<?>")
	}
}

func sortStrings(s []string) {
	for i := 1; i < len(s); i++ {
		for j := i; j > 0 && s[j] < s[j-1]; j-- {
			s[j], s[j-1] = s[j-1], s[j]
		}
	}
}

// Hex renders bytes as lowercase hex.
func Hex(b []byte) string {
	var sb strings.Builder
	for _, c := range b {
		sb.WriteByte("0123456789abcdef"[c>>4])
		sb.WriteByte("0123456789abcdef"[c&15])
	}
	return sb.String()
}

// Scribble overwrites, in place, every exported leaf reachable from *ptr
// (through pointers, interfaces holding pointers, slices and arrays): bools
// are negated, integers complemented. Pointers and slices themselves are kept,
// so the writes land in whatever memory the value refers to - which is the
// point: memory shared with another value shows up as a change of that value.
func Scribble(ptr interface{}) {
	seen := map[uintptr]bool{}
	scribble(reflect.ValueOf(ptr), seen, 0)
}

func scribble(rv reflect.Value, seen map[uintptr]bool, depth int) {
	if depth > 40 {
		return
	}
	switch rv.Kind() {
	case reflect.Ptr:
		if rv.IsNil() || seen[rv.Pointer()] {
			return
		}
		seen[rv.Pointer()] = true
		scribble(rv.Elem(), seen, depth+1)
	case reflect.Interface:
		if !rv.IsNil() {
			scribble(rv.Elem(), seen, depth+1)
		}
	case reflect.Struct:
		for i := 0; i < rv.NumField(); i++ {
			if rv.Type().Field(i).PkgPath != "" {
				continue
			}
			scribble(rv.Field(i), seen, depth+1)
		}
	case reflect.Slice, reflect.Array:
		for i := 0; i < rv.Len(); i++ {
			scribble(rv.Index(i), seen, depth+1)
		}
	case reflect.Bool:
		if rv.CanSet() {
			rv.SetBool(!rv.Bool())
		}
	case reflect.Int, reflect.Int8, reflect.Int16, reflect.Int32, reflect.Int64:
		if rv.CanSet() {
			rv.SetInt(^rv.Int())
		}
	case reflect.Uint, reflect.Uint8, reflect.Uint16, reflect.Uint32, reflect.Uint64:
		if rv.CanSet() {
			rv.SetUint(^rv.Uint() & (1<<uint(rv.Type().Bits()) - 1))
		}
	}
}
