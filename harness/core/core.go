// Package core is the small runtime every monitor runs in: deterministic
// per-case PRNG streams, batching over worker processes, progress markers for
// post-mortem attribution of fatal crashes, and collection of what the
// monitors observed (evaluations, distinct shapes, samples, violations).
package core

import (
	"encoding/binary"
	"encoding/json"
	"fmt"
	"hash/fnv"
	"os"
	"runtime"
	"runtime/debug"
	"sort"
	"strings"
	"sync/atomic"
)

// Violation is one observed refutation of a property.
type Violation struct {
	Key     string `json:"key"`            // canonical key (matched against known_findings.json)
	Monitor string `json:"monitor"`        // sub-monitor that observed it
	Case    int64  `json:"case"`           // case index inside that sub-monitor
	Detail  string `json:"detail"`         // human readable: input, expected, observed
	Arch    string `json:"arch,omitempty"` // GOARCH of the worker that observed it when it is not amd64
}

// Result is what one worker process reports to the parent.
type Result struct {
	Evaluations     int64               `json:"evaluations"`
	Counters        map[string]int64    `json:"counters"`
	Shapes          []uint64            `json:"shapes"`
	ShapeCats       map[string][]uint64 `json:"shape_cats"` // shape hashes per category (first argument of Shape when it is a string)
	Samples         []json.RawMessage   `json:"samples"`
	Violations      []Violation         `json:"violations"`
	ViolationCounts map[string]int64    `json:"violation_counts"`
	Exhaustive      map[string]bool     `json:"exhaustive"`
	Notes           []string            `json:"notes"`
	Done            bool                `json:"done"`
}

// Ctx is handed to every monitor.
type Ctx struct {
	Prop     string
	Tier     string
	Seed     uint64
	Batch    int
	NBatches int

	// replay mode: run only this (monitor, case)
	OnlyMonitor string
	OnlyCase    int64
	Replay      bool

	progress *os.File
	pbuf     [80]byte
	stride   int64

	curMon  string
	curCase int64
	caseSeq int64 // incremented on every case start (read by the worker watchdog)

	res      Result
	shapes   map[uint64]struct{}
	shapeCat map[string][]uint64
	nSample  map[string]int
}

// NewCtx creates a context. progressPath may be empty.
func NewCtx(prop, tier string, seed uint64, batch, nbatches int, progressPath string) *Ctx {
	c := &Ctx{Prop: prop, Tier: tier, Seed: seed, Batch: batch, NBatches: nbatches, stride: 1}
	c.res.Counters = map[string]int64{}
	c.res.ViolationCounts = map[string]int64{}
	c.res.Exhaustive = map[string]bool{}
	c.shapes = map[uint64]struct{}{}
	c.nSample = map[string]int{}
	if progressPath != "" {
		f, err := os.OpenFile(progressPath, os.O_CREATE|os.O_WRONLY|os.O_TRUNC, 0o644)
		if err == nil {
			c.progress = f
		}
	}
	return c
}

// Thorough reports whether the thorough tier was requested.
func (c *Ctx) Thorough() bool { return c.Tier == "thorough" }

// N picks the case count for the tier.
func (c *Ctx) N(quick, thorough int64) int64 {
	if c.Thorough() {
		return thorough
	}
	// the per-monitor quick counts were written for a one-second check; the quick tier is
	// given QuickScale times that (never more than the thorough count)
	if q := quick * QuickScale; q < thorough {
		return q
	}
	return thorough
}

// Prelude, when set (by package mon), is run by some workers before the monitors: a handful of
// library calls from all packages in an order that depends on the batch, so that the monitors also
// run in processes whose *first* use of each package was something else (lazily built tables,
// sync.Once capturing the first caller's arguments).
var Prelude func(batch int)

// QuickScale multiplies every quick-tier case count.
const QuickScale = 8

// ProgressStride sets how often (in cases) the progress marker is rewritten;
// used by very dense sweeps where one pwrite per case would dominate.
func (c *Ctx) ProgressStride(n int64) {
	if n < 1 {
		n = 1
	}
	c.stride = n
}

// Mine reports whether case i of sub-monitor mon belongs to this worker, and
// if so makes it the current case (progress marker on disk before the case
// runs, so a fatal crash can be attributed).
func (c *Ctx) Mine(mon string, i int64) bool {
	if c.Replay {
		if mon != c.OnlyMonitor || i != c.OnlyCase {
			return false
		}
	} else if c.NBatches > 1 && int(i%int64(c.NBatches)) != c.Batch {
		return false
	}
	c.curMon, c.curCase = mon, i
	atomic.AddInt64(&c.caseSeq, 1)
	if c.progress != nil && (c.stride == 1 || i%c.stride == 0) {
		n := copy(c.pbuf[:], mon)
		for n < 40 {
			c.pbuf[n] = ' '
			n++
		}
		s := fmt.Sprintf("%-20d\n", i)
		copy(c.pbuf[40:], s)
		c.progress.WriteAt(c.pbuf[:61], 0)
	}
	return true
}

// CaseSeq returns a counter that changes whenever a new case starts.
func (c *Ctx) CaseSeq() int64 { return atomic.LoadInt64(&c.caseSeq) }

// FlushProgress rewrites the progress marker for the current case regardless
// of the stride (called by the watchdog before it kills the process).
func (c *Ctx) FlushProgress() {
	if c.progress != nil {
		s := fmt.Sprintf("%-40s%-20d\n", c.curMon, c.curCase)
		c.progress.WriteAt([]byte(s), 0)
	}
}

// Whole is for sub-monitors that are not split into cases: it runs on batch 0
// only (or in replay mode when selected).
func (c *Ctx) Whole(mon string) bool { return c.Mine(mon, 0) }

// RNG returns the deterministic stream for (seed, property, monitor, case).
func (c *Ctx) RNG(mon string, i int64) *RNG {
	h := fnv.New64a()
	var b [8]byte
	binary.LittleEndian.PutUint64(b[:], c.Seed)
	h.Write(b[:])
	h.Write([]byte(c.Prop))
	h.Write([]byte{0})
	h.Write([]byte(mon))
	h.Write([]byte{0})
	binary.LittleEndian.PutUint64(b[:], uint64(i))
	h.Write(b[:])
	return NewRNG(h.Sum64())
}

// Eval counts executions of the code under observation.
func (c *Ctx) Eval(n int64) { c.res.Evaluations += n }

// Count adds to a named counter that is reported in the evidence.
func (c *Ctx) Count(name string, n int64) { c.res.Counters[name] += n }

// Shape records one distinct non-trivial shape of an observed execution.
func (c *Ctx) Shape(parts ...interface{}) {
	h := fnv.New64a()
	for _, p := range parts {
		fmt.Fprint(h, p)
		h.Write([]byte{0x1f})
	}
	sum := h.Sum64()
	if _, seen := c.shapes[sum]; !seen {
		c.shapes[sum] = struct{}{}
		if cat, ok := parts[0].(string); ok && len(parts) > 1 {
			if c.shapeCat == nil {
				c.shapeCat = map[string][]uint64{}
			}
			if _, have := c.shapeCat[cat]; !have && len(c.shapeCat) >= 200 {
				cat = "(other)"
			}
			c.shapeCat[cat] = append(c.shapeCat[cat], sum)
		}
	}
}

// ShapeHash records an already hashed shape (cheap path for dense sweeps).
func (c *Ctx) ShapeHash(h uint64) { c.shapes[h] = struct{}{} }

// NShapes returns the number of distinct shapes recorded so far.
func (c *Ctx) NShapes() int { return len(c.shapes) }

// Sample keeps up to two written-out cases per sub-monitor for the evidence.
func (c *Ctx) Sample(mon string, v interface{}) {
	if c.nSample[mon] >= 2 || (c.Batch != 0 && !c.Replay) {
		return
	}
	c.nSample[mon]++
	b, err := json.Marshal(map[string]interface{}{"monitor": mon, "case": v})
	if err == nil {
		c.res.Samples = append(c.res.Samples, b)
	}
}

// WantSample reports whether Sample(mon, ..) would still keep a value.
func (c *Ctx) WantSample(mon string) bool {
	return c.nSample[mon] < 2 && (c.Batch == 0 || c.Replay)
}

// Exhaustive marks a sub-monitor as having enumerated its finite space.
func (c *Ctx) Exhaustive(mon string) { c.res.Exhaustive[mon] = true }

// Note adds a free-text note to the evidence.
func (c *Ctx) Note(s string) { c.res.Notes = append(c.res.Notes, s) }

// Violate records a violation under a canonical key.
func (c *Ctx) Violate(key string, format string, args ...interface{}) {
	c.res.ViolationCounts[key]++
	if c.res.ViolationCounts[key] > 2 {
		return
	}
	if len(c.res.Violations) >= 400 {
		return
	}
	d := fmt.Sprintf(format, args...)
	if n := runtime.GOMAXPROCS(0); n != runtime.NumCPU() {
		d += fmt.Sprintf(" [observed with GOMAXPROCS=%d; replay with that environment variable if it does not reproduce]", n)
	}
	if len(d) > 1500 {
		d = d[:1500] + "…"
	}
	arch := ""
	if runtime.GOARCH != "amd64" {
		arch = runtime.GOARCH
		d += " [observed in the GOARCH=" + arch + " build of the harness and the library]"
	}
	c.res.Violations = append(c.res.Violations, Violation{Key: key, Monitor: c.curMon, Case: c.curCase, Detail: d, Arch: arch})
}

// Guard runs f and converts a panic into (true, message).
func Guard(f func()) (panicked bool, msg string) {
	defer func() {
		if r := recover(); r != nil {
			panicked = true
			st := string(debug.Stack())
			// keep the frames below the panic only, shortened
			if i := strings.Index(st, "panic("); i >= 0 {
				st = st[i:]
			}
			lines := strings.Split(st, "\n")
			if len(lines) > 12 {
				lines = lines[:12]
			}
			msg = fmt.Sprintf("%v | %s", r, strings.Join(lines, " / "))
		}
	}()
	f()
	return
}

// PanicSite extracts a short "file.go:line"-free function name from a Guard
// message so that keys stay stable across line shifts.
func PanicSite(msg string) string {
	// the first frame after "panic(" lines that mentions github.com/brocaar/lorawan
	for _, part := range strings.Split(msg, " / ") {
		p := strings.TrimSpace(part)
		if strings.HasPrefix(p, "github.com/brocaar/lorawan") {
			if i := strings.Index(p, "("); i > 0 {
				// strip argument list
				j := strings.LastIndex(p, "(")
				if j > 0 {
					p = p[:j]
				}
			}
			p = strings.TrimPrefix(p, "github.com/brocaar/lorawan")
			p = strings.TrimPrefix(p, "/")
			p = strings.TrimPrefix(p, ".")
			return p
		}
	}
	return "unknown"
}

// Finish serialises the result to path.
func (c *Ctx) Finish(path string) error {
	c.res.Done = true
	c.res.Shapes = c.res.Shapes[:0]
	for h := range c.shapes {
		c.res.Shapes = append(c.res.Shapes, h)
	}
	sort.Slice(c.res.Shapes, func(i, j int) bool { return c.res.Shapes[i] < c.res.Shapes[j] })
	c.res.ShapeCats = c.shapeCat
	b, err := json.Marshal(&c.res)
	if err != nil {
		return err
	}
	if c.progress != nil {
		c.progress.Close()
	}
	return os.WriteFile(path, b, 0o644)
}

// Res exposes the result (replay mode prints it).
func (c *Ctx) Res() *Result { return &c.res }

// Property describes one registered property monitor.
type Property struct {
	ID          string
	Rule        string   // how cases are generated and what makes one distinct / non-trivial
	Assumptions []string // trusted base
	Race        bool     // has sub-monitors that need the -race binary
	Run         func(c *Ctx)
	RunRace     func(c *Ctx) // executed only in the -race binary
	MinEvals    int64        // fewer evaluations than this on a completed run => inconclusive
	// Post inspects the merged counters and returns reasons for which the run,
	// although free of violations, did not observe enough to be conclusive.
	Post func(counters map[string]int64) []string
}

var registry = map[string]*Property{}

// Register adds a property monitor.
func Register(p *Property) { registry[p.ID] = p }

// Lookup finds a property monitor.
func Lookup(id string) *Property { return registry[id] }

// IDs lists the registered properties.
func IDs() []string {
	var out []string
	for k := range registry {
		out = append(out, k)
	}
	sort.Strings(out)
	return out
}
