package core

import "math/bits"

// RNG is a small deterministic generator (splitmix64 seeding an xoshiro256**
// state). No global state, no time.
type RNG struct {
	s [4]uint64
	// LastKey lets generators re-use "the previous key" of this stream
	// (caches keyed on the wrong thing only show with repeated / special keys).
	LastKey    [16]byte
	HasLastKey bool
}

func splitmix(x *uint64) uint64 {
	*x += 0x9e3779b97f4a7c15
	z := *x
	z = (z ^ (z >> 30)) * 0xbf58476d1ce4e5b9
	z = (z ^ (z >> 27)) * 0x94d049bb133111eb
	return z ^ (z >> 31)
}

// NewRNG seeds a generator.
func NewRNG(seed uint64) *RNG {
	r := &RNG{}
	x := seed
	for i := range r.s {
		r.s[i] = splitmix(&x)
	}
	return r
}

// U64 returns 64 random bits.
func (r *RNG) U64() uint64 {
	s := &r.s
	res := bits.RotateLeft64(s[1]*5, 7) * 9
	t := s[1] << 17
	s[2] ^= s[0]
	s[3] ^= s[1]
	s[1] ^= s[2]
	s[0] ^= s[3]
	s[2] ^= t
	s[3] = bits.RotateLeft64(s[3], 45)
	return res
}

// U32 returns 32 random bits.
func (r *RNG) U32() uint32 { return uint32(r.U64() >> 32) }

// Intn returns a value in [0,n).
func (r *RNG) Intn(n int) int {
	if n <= 1 {
		return 0
	}
	return int(r.U64() % uint64(n))
}

// Range returns a value in [lo,hi].
func (r *RNG) Range(lo, hi int) int { return lo + r.Intn(hi-lo+1) }

// Bool returns a random bool.
func (r *RNG) Bool() bool { return r.U64()&1 == 1 }

// Chance is true with probability num/den.
func (r *RNG) Chance(num, den int) bool { return r.Intn(den) < num }

// Byte returns a random byte.
func (r *RNG) Byte() byte { return byte(r.U64() >> 56) }

// Bytes returns n random bytes.
func (r *RNG) Bytes(n int) []byte {
	b := make([]byte, n)
	r.Fill(b)
	return b
}

// Fill fills b with random bytes.
func (r *RNG) Fill(b []byte) {
	i := 0
	for i+8 <= len(b) {
		v := r.U64()
		for k := 0; k < 8; k++ {
			b[i+k] = byte(v >> (8 * k))
		}
		i += 8
	}
	if i < len(b) {
		v := r.U64()
		for ; i < len(b); i++ {
			b[i] = byte(v)
			v >>= 8
		}
	}
}

// U32Edge returns a uint32 biased towards boundary values.
func (r *RNG) U32Edge() uint32 {
	switch r.Intn(8) {
	case 0:
		return [...]uint32{0, 1, 0xffff, 0x10000, 0x10001, 0xfffffffe, 0xffffffff, 0x7fffffff, 0x80000000, 0xff, 0x100, 0x101, 0xff00, 0x00ffffff, 0x01000000, 0x00010100, 0xfffe}[r.Intn(17)]
	case 1:
		return uint32(r.Intn(1 << 16))
	default:
		return r.U32()
	}
}

// Perm returns a random permutation of 0..n-1.
func (r *RNG) Perm(n int) []int {
	p := make([]int, n)
	for i := range p {
		p[i] = i
	}
	for i := n - 1; i > 0; i-- {
		j := r.Intn(i + 1)
		p[i], p[j] = p[j], p[i]
	}
	return p
}
