package spec

import "fmt"

// Table-driven description of the MAC-command payload formats of LoRaWAN
// 1.0.x / 1.1 (§5 "MAC commands"), written from the specification text.
//
// A payload is a little-endian bit string: bit p of the payload is bit p%8 of
// byte p/8. A Field occupies Width bits starting at bit 8*Byte+Bit. Fields are
// listed in the order in which the corresponding Go struct declares its leaf
// members (nested structs and fixed arrays flattened), which lets a generic
// reflection walk connect table and struct without per-type code.

// Kind selects the value transform between the API-side value and the wire integer.
type Kind int

const (
	KUint      Kind = iota // wire = value
	KBool                  // 1 bit
	KSigned6               // 6-bit two's complement
	KFreq100               // value in Hz, wire in 100 Hz units
	KFreqNewCh             // NewChannelReq: 100 Hz units below 1.2 GHz, 200 Hz units from 2.4 GHz (wire >= 12 000 000)
	KGPSTime               // value in ns: 32-bit seconds then 8-bit 1/256 s fraction
	KRFUBool               // API exposes a flag for a bit that is RFU in this context: receivers must read it as 0
)

// Field is one leaf of a payload.
type Field struct {
	Name  string
	Byte  int
	Bit   int
	Width int
	Kind  Kind
	// Sure: API values 0..SureMax (or the explicit SureSet) are inside the spec
	// range and must be accepted by an encoder. Values that do not fit the wire
	// field must be refused. Values in between are not asserted either way.
	SureMax int64
	SureSet []int64
	SureMin int64 // only for KSigned6
}

// Layout is one payload format.
type Layout struct {
	Name   string
	Uplink bool
	CID    byte
	Size   int
	Fields []Field
}

// WireMax is the largest wire integer of the field.
func (f Field) WireMax() uint64 {
	if f.Width >= 64 {
		return ^uint64(0)
	}
	return (uint64(1) << uint(f.Width)) - 1
}

// ToWire converts an API value to the wire integer. ok=false: the value is not
// representable (an encoder must refuse it).
func (f Field) ToWire(v int64) (w uint64, ok bool) {
	switch f.Kind {
	case KUint:
		if v < 0 || uint64(v) > f.WireMax() {
			return 0, false
		}
		return uint64(v), true
	case KBool, KRFUBool:
		if v != 0 && v != 1 {
			return 0, false
		}
		return uint64(v), true
	case KSigned6:
		if v < -32 || v > 31 {
			return 0, false
		}
		return uint64(v) & 0x3f, true
	case KFreq100:
		if v < 0 || v%100 != 0 || uint64(v/100) > f.WireMax() {
			return 0, false
		}
		return uint64(v / 100), true
	case KFreqNewCh:
		if v < 0 {
			return 0, false
		}
		if v >= 2400000000 {
			if v%200 != 0 || uint64(v/200) > f.WireMax() {
				return 0, false
			}
			return uint64(v / 200), true
		}
		if v%100 != 0 || v/100 >= 12000000 {
			return 0, false
		}
		return uint64(v / 100), true
	case KGPSTime:
		if v < 0 {
			return 0, false
		}
		sec := v / 1000000000
		if sec > 0xffffffff {
			return 0, false
		}
		frac := (v - sec*1000000000) / 3906250
		return uint64(sec) | uint64(frac)<<32, true
	}
	return 0, false
}

// FromWire converts a wire integer to the API value.
func (f Field) FromWire(w uint64) int64 {
	switch f.Kind {
	case KSigned6:
		w &= 0x3f
		if w >= 32 {
			return int64(w) - 64
		}
		return int64(w)
	case KFreq100:
		return int64(w) * 100
	case KFreqNewCh:
		if w >= 12000000 {
			return int64(w) * 200
		}
		return int64(w) * 100
	case KGPSTime:
		sec := w & 0xffffffff
		frac := w >> 32
		return int64(sec)*1000000000 + int64(frac)*3906250
	case KRFUBool:
		return 0
	}
	return int64(w)
}

// WireResolution maps an API value to the value a lossless codec returns for it.
func (f Field) WireResolution(v int64) int64 {
	w, ok := f.ToWire(v)
	if !ok {
		return v
	}
	if f.Kind == KRFUBool {
		return v
	}
	return f.FromWire(w)
}

// Sure reports whether v is certainly inside the spec range.
func (f Field) Sure(v int64) bool {
	if _, ok := f.ToWire(v); !ok {
		return false
	}
	if f.SureSet != nil {
		for _, s := range f.SureSet {
			if s == v {
				return true
			}
		}
		return false
	}
	switch f.Kind {
	case KSigned6:
		return v >= -32 && v <= 31
	case KBool:
		return true
	case KRFUBool:
		return v == 0
	case KFreq100, KFreqNewCh:
		return true
	case KGPSTime:
		// a duration that is not a whole number of 1/256 s steps has no prescribed quantisation (down, or to
		// the nearest step): it is certainly in range only if the step above it still is
		if v%GPSTick == 0 {
			return true
		}
		_, ok := f.ToWire(v + GPSTick)
		return ok
	}
	return v >= 0 && v <= f.SureMax
}

// GPSTick is the wire resolution of DeviceTimeAns in ns (1/256 s).
const GPSTick = 3906250

// Lossless reports whether got is what a lossless codec may return for the accepted API value v: the value
// at wire resolution - for KGPSTime either neighbouring 1/256 s step, since the specification does not say
// how a finer duration is quantised.
func (f Field) Lossless(v, got int64) bool {
	if f.Kind == KGPSTime && v%GPSTick != 0 {
		d := got - v
		return got%GPSTick == 0 && d > -GPSTick && d < GPSTick
	}
	return got == f.WireResolution(v)
}

// Encode builds the payload bytes from API values (one per field).
func (l *Layout) Encode(vals []int64) ([]byte, error) {
	if len(vals) != len(l.Fields) {
		return nil, fmt.Errorf("%s: %d values for %d fields", l.Name, len(vals), len(l.Fields))
	}
	out := make([]byte, l.Size)
	for i, f := range l.Fields {
		w, ok := f.ToWire(vals[i])
		if !ok {
			return nil, fmt.Errorf("%s.%s: %d not representable", l.Name, f.Name, vals[i])
		}
		p := f.Byte*8 + f.Bit
		for k := 0; k < f.Width; k++ {
			if w>>uint(k)&1 == 1 {
				out[(p+k)/8] |= 1 << uint((p+k)%8)
			}
		}
	}
	return out, nil
}

// Decode extracts the API values from payload bytes (RFU bits ignored).
func (l *Layout) Decode(b []byte) []int64 {
	out := make([]int64, len(l.Fields))
	for i, f := range l.Fields {
		var w uint64
		p := f.Byte*8 + f.Bit
		for k := 0; k < f.Width; k++ {
			if b[(p+k)/8]>>uint((p+k)%8)&1 == 1 {
				w |= 1 << uint(k)
			}
		}
		out[i] = f.FromWire(w)
	}
	return out
}

// RFUMask returns, per byte, the bits no field occupies (plus KRFUBool bits).
func (l *Layout) RFUMask() []byte {
	used := make([]byte, l.Size)
	for _, f := range l.Fields {
		if f.Kind == KRFUBool {
			continue
		}
		p := f.Byte*8 + f.Bit
		for k := 0; k < f.Width; k++ {
			used[(p+k)/8] |= 1 << uint((p+k)%8)
		}
	}
	out := make([]byte, l.Size)
	for i := range used {
		out[i] = ^used[i]
	}
	return out
}

func u(name string, byt, bit, width int, sureMax int64) Field {
	return Field{Name: name, Byte: byt, Bit: bit, Width: width, Kind: KUint, SureMax: sureMax}
}
func bl(name string, byt, bit int) Field {
	return Field{Name: name, Byte: byt, Bit: bit, Width: 1, Kind: KBool}
}
func fr(name string, byt int) Field {
	return Field{Name: name, Byte: byt, Bit: 0, Width: 24, Kind: KFreq100}
}

func chMask(byt int) []Field {
	var out []Field
	for i := 0; i < 16; i++ {
		out = append(out, bl(fmt.Sprintf("ChMask[%d]", i), byt+i/8, i%8))
	}
	return out
}

// version: Minor in bits 3:0, RFU 7:4. Minor 1 is the only value LoRaWAN 1.1
// defines; 0 is tolerated as "1.0". Larger values are not asserted.
func version(name string) []Field { return []Field{u(name+".Minor", 0, 0, 4, 1)} }

// MACLayouts lists all MAC commands with a payload, LoRaWAN 1.0.4 / 1.1 §5.
var MACLayouts = []*Layout{
	// ---- downlink (sent by the network)
	{Name: "ResetConf", Uplink: false, CID: 0x01, Size: 1, Fields: version("ServLoRaWANVersion")},
	{Name: "LinkCheckAns", Uplink: false, CID: 0x02, Size: 2, Fields: []Field{u("Margin", 0, 0, 8, 255), u("GwCnt", 1, 0, 8, 255)}},
	{Name: "LinkADRReq", Uplink: false, CID: 0x03, Size: 4, Fields: append(append([]Field{
		u("DataRate", 0, 4, 4, 15), u("TXPower", 0, 0, 4, 15)}, chMask(1)...),
		u("Redundancy.ChMaskCntl", 3, 4, 3, 7), u("Redundancy.NbRep", 3, 0, 4, 15))},
	// MaxDCycle: 4 bits since 1.0.2 (8 bits with 255 = "off" before): 0..15 certain.
	{Name: "DutyCycleReq", Uplink: false, CID: 0x04, Size: 1, Fields: []Field{u("MaxDCycle", 0, 0, 8, 15)}},
	{Name: "RXParamSetupReq", Uplink: false, CID: 0x05, Size: 4, Fields: []Field{
		fr("Frequency", 1),
		{Name: "DLSettings.OptNeg(RFU)", Byte: 0, Bit: 7, Width: 1, Kind: KRFUBool},
		u("DLSettings.RX2DataRate", 0, 0, 4, 15), u("DLSettings.RX1DROffset", 0, 4, 3, 7)}},
	{Name: "NewChannelReq", Uplink: false, CID: 0x07, Size: 5, Fields: []Field{
		u("ChIndex", 0, 0, 8, 255),
		{Name: "Freq", Byte: 1, Bit: 0, Width: 24, Kind: KFreqNewCh},
		u("MaxDR", 4, 4, 4, 15), u("MinDR", 4, 0, 4, 15)}},
	{Name: "RXTimingSetupReq", Uplink: false, CID: 0x08, Size: 1, Fields: []Field{u("Delay", 0, 0, 4, 15)}},
	{Name: "TXParamSetupReq", Uplink: false, CID: 0x09, Size: 1, Fields: []Field{
		u("DownlinkDwelltime", 0, 5, 1, 1), u("UplinkDwellTime", 0, 4, 1, 1), u("MaxEIRP", 0, 0, 4, 15)}},
	{Name: "DLChannelReq", Uplink: false, CID: 0x0A, Size: 4, Fields: []Field{u("ChIndex", 0, 0, 8, 255), fr("Freq", 1)}},
	{Name: "RekeyConf", Uplink: false, CID: 0x0B, Size: 1, Fields: version("ServLoRaWANVersion")},
	{Name: "ADRParamSetupReq", Uplink: false, CID: 0x0C, Size: 1, Fields: []Field{u("ADRParam.LimitExp", 0, 4, 4, 15), u("ADRParam.DelayExp", 0, 0, 4, 15)}},
	{Name: "DeviceTimeAns", Uplink: false, CID: 0x0D, Size: 5, Fields: []Field{{Name: "TimeSinceGPSEpoch", Byte: 0, Bit: 0, Width: 40, Kind: KGPSTime}}},
	{Name: "ForceRejoinReq", Uplink: false, CID: 0x0E, Size: 2, Fields: []Field{
		u("Period", 1, 3, 3, 7), u("MaxRetries", 1, 0, 3, 7),
		{Name: "RejoinType", Byte: 0, Bit: 4, Width: 3, Kind: KUint, SureSet: []int64{0, 2}},
		u("DR", 0, 0, 4, 15)}},
	{Name: "RejoinParamSetupReq", Uplink: false, CID: 0x0F, Size: 1, Fields: []Field{u("MaxTimeN", 0, 4, 4, 15), u("MaxCountN", 0, 0, 4, 15)}},
	{Name: "PingSlotChannelReq", Uplink: false, CID: 0x11, Size: 4, Fields: []Field{fr("Frequency", 0), u("DR", 3, 0, 4, 15)}},
	{Name: "BeaconFreqReq", Uplink: false, CID: 0x13, Size: 3, Fields: []Field{fr("Frequency", 0)}},
	{Name: "DeviceModeConf", Uplink: false, CID: 0x20, Size: 1, Fields: []Field{u("Class", 0, 0, 8, 2)}},

	// ---- uplink (sent by the end-device)
	{Name: "ResetInd", Uplink: true, CID: 0x01, Size: 1, Fields: version("DevLoRaWANVersion")},
	{Name: "LinkADRAns", Uplink: true, CID: 0x03, Size: 1, Fields: []Field{bl("ChannelMaskACK", 0, 0), bl("DataRateACK", 0, 1), bl("PowerACK", 0, 2)}},
	{Name: "RXParamSetupAns", Uplink: true, CID: 0x05, Size: 1, Fields: []Field{bl("ChannelACK", 0, 0), bl("RX2DataRateACK", 0, 1), bl("RX1DROffsetACK", 0, 2)}},
	{Name: "DevStatusAns", Uplink: true, CID: 0x06, Size: 2, Fields: []Field{u("Battery", 0, 0, 8, 255), {Name: "Margin", Byte: 1, Bit: 0, Width: 6, Kind: KSigned6}}},
	{Name: "NewChannelAns", Uplink: true, CID: 0x07, Size: 1, Fields: []Field{bl("ChannelFrequencyOK", 0, 0), bl("DataRateRangeOK", 0, 1)}},
	{Name: "DLChannelAns", Uplink: true, CID: 0x0A, Size: 1, Fields: []Field{bl("UplinkFrequencyExists", 0, 1), bl("ChannelFrequencyOK", 0, 0)}},
	{Name: "RekeyInd", Uplink: true, CID: 0x0B, Size: 1, Fields: version("DevLoRaWANVersion")},
	{Name: "RejoinParamSetupAns", Uplink: true, CID: 0x0F, Size: 1, Fields: []Field{bl("TimeOK", 0, 0)}},
	{Name: "PingSlotInfoReq", Uplink: true, CID: 0x10, Size: 1, Fields: []Field{u("Periodicity", 0, 0, 3, 7)}},
	{Name: "PingSlotChannelAns", Uplink: true, CID: 0x11, Size: 1, Fields: []Field{bl("DataRateOK", 0, 1), bl("ChannelFrequencyOK", 0, 0)}},
	{Name: "BeaconFreqAns", Uplink: true, CID: 0x13, Size: 1, Fields: []Field{bl("BeaconFrequencyOK", 0, 0)}},
	{Name: "DeviceModeInd", Uplink: true, CID: 0x20, Size: 1, Fields: []Field{u("Class", 0, 0, 8, 2)}},
}

// MACNoPayload lists the commands that carry no payload, per direction
// (true = uplink).
var MACNoPayload = map[bool][]byte{
	true:  {0x02, 0x04, 0x08, 0x09, 0x0C, 0x0D}, // LinkCheckReq DutyCycleAns RXTimingSetupAns TXParamSetupAns ADRParamSetupAns DeviceTimeReq
	false: {0x06, 0x10},                         // DevStatusReq PingSlotInfoAns
}

// MACLayout finds the layout for a direction and CID.
func MACLayout(uplink bool, cid byte) *Layout {
	for _, l := range MACLayouts {
		if l.Uplink == uplink && l.CID == cid {
			return l
		}
	}
	return nil
}

// MACSize is the spec's payload length for (direction, CID); 0 for commands
// without payload and for unknown CIDs.
func MACSize(uplink bool, cid byte) int {
	if l := MACLayout(uplink, cid); l != nil {
		return l.Size
	}
	return ExtraSizes[uplink][cid]
}

// ExtraSizes holds payload sizes of standard-range CIDs (< 0x80) that this table does not describe but the
// library under test registers from the start (a command of an older specification revision, say). The
// table cannot judge their format; their framing follows the registered size. Filled by the monitors once,
// before any proprietary registration.
var ExtraSizes = map[bool]map[byte]int{true: {}, false: {}}

// DLSettingsLayout is the join-accept DLSettings byte: OptNeg 7, RX1DRoffset 6:4, RX2DataRate 3:0.
var DLSettingsLayout = &Layout{Name: "DLSettings", Size: 1, Fields: []Field{
	bl("OptNeg", 0, 7), u("RX2DataRate", 0, 0, 4, 15), u("RX1DROffset", 0, 4, 3, 7)}}
