package spec

// Regional parameters written from the LoRaWAN Regional Parameters documents
// (1.0.x "Regional Parameters" rev A/B, RP002-1.0.0 .. 1.0.3) and, for
// ISM2400, Semtech's "Physical layer proposal 2.4 GHz". Only values that are
// identical in every revision that defines them are pinned here.

// DRDef is a data-rate definition. Modulation: "LORA", "FSK", "LR_FHSS".
type DRDef struct {
	Modulation string
	SF, BW     int // LoRa: spreading factor, bandwidth in kHz
	BitRate    int // FSK
	Up, Down   bool
}

// Chan is a default channel.
type Chan struct {
	Freq         uint32
	MinDR, MaxDR int
}

// Region is the reference description of one band.
type Region struct {
	Name        string
	RX1Mod      int // 0: RX1 channel = uplink channel; n: uplink channel index modulo n
	Uplink      []Chan
	Downlink    []Chan
	RX2Freq     uint32
	RX2DR       int
	PingSlot    uint32 // fixed ping-slot frequency; 0 when hopping
	PingHop     []uint32
	DataRates   map[int]DRDef
	LRFHSS      []int // LR-FHSS data-rate indices (RP002-1.0.2+), checked structurally only
	Unpinned    []int // indices whose definition differs between revisions: not compared
	TXPowerLens []int // table lengths published in some revision; offset[i] = -2*i dB
	// RX1DR returns the expected RX1 data-rate, ok=false where this model
	// does not pin a value (rows/offsets outside the region's formula).
	RX1DR func(ulDR, off int, dwell bool) (int, bool)
	// PositiveOffsets is the largest offset that lowers the data-rate
	// (monotonicity is checked over 0..PositiveOffsets).
	PositiveOffsets int
	ExtraChannels   bool
	CFListMinDR     int
	CFListMaxDR     int
}

func lora(sf, bw int, up, down bool) DRDef {
	return DRDef{Modulation: "LORA", SF: sf, BW: bw, Up: up, Down: down}
}

func sf12to7(bw int) map[int]DRDef {
	m := map[int]DRDef{}
	for i := 0; i <= 5; i++ {
		m[i] = lora(12-i, bw, true, true)
	}
	return m
}

func with(m map[int]DRDef, extra map[int]DRDef) map[int]DRDef {
	for k, v := range extra {
		m[k] = v
	}
	return m
}

func maxDRminusOff(maxUL, maxOff int) func(int, int, bool) (int, bool) {
	return func(dr, off int, _ bool) (int, bool) {
		if dr < 0 || dr > maxUL || off < 0 || off > maxOff {
			return 0, false
		}
		if dr-off < 0 {
			return 0, true
		}
		return dr - off, true
	}
}

func three(a, b, c uint32, min, max int) []Chan {
	return []Chan{{a, min, max}, {b, min, max}, {c, min, max}}
}

func gen(n int, base, step uint32, min, max int) []Chan {
	out := make([]Chan, n)
	for i := range out {
		out[i] = Chan{base + uint32(i)*step, min, max}
	}
	return out
}

func freqs(cs []Chan) []uint32 {
	out := make([]uint32, len(cs))
	for i, c := range cs {
		out[i] = c.Freq
	}
	return out
}

func clamp(v, lo, hi int) int {
	if v < lo {
		return lo
	}
	if v > hi {
		return hi
	}
	return v
}

func as923(name string, offset int64) *Region {
	f := func(hz int64) uint32 { return uint32(hz + offset) }
	ch := []Chan{{f(923200000), 0, 5}, {f(923400000), 0, 5}}
	return &Region{
		Name: name, Uplink: ch, Downlink: ch, RX2Freq: f(923200000), RX2DR: 2, PingSlot: f(923400000),
		DataRates:   with(sf12to7(125), map[int]DRDef{6: lora(7, 250, true, true), 7: {Modulation: "FSK", BitRate: 50000, Up: true, Down: true}}),
		TXPowerLens: []int{8},
		RX1DR: func(dr, off int, dwell bool) (int, bool) {
			if dr < 0 || dr > 7 || off < 0 || off > 7 {
				return 0, false
			}
			eff := []int{0, 1, 2, 3, 4, 5, -1, -2}[off]
			floor := 0
			if dwell {
				floor = 2
			}
			v := dr - eff
			if v < floor {
				v = floor
			}
			if v > 5 {
				v = 5
			}
			return v, true
		},
		PositiveOffsets: 5, ExtraChannels: true, CFListMinDR: 0, CFListMaxDR: 5,
	}
}

// Regions is the reference table, keyed by the common band name.
var Regions = map[string]*Region{}

func init() {
	fsk := DRDef{Modulation: "FSK", BitRate: 50000, Up: true, Down: true}
	add := func(r *Region) { Regions[r.Name] = r }

	eu := three(868100000, 868300000, 868500000, 0, 5)
	add(&Region{Name: "EU868", Uplink: eu, Downlink: eu, RX2Freq: 869525000, RX2DR: 0, PingSlot: 869525000,
		DataRates: with(sf12to7(125), map[int]DRDef{6: lora(7, 250, true, true), 7: fsk}), LRFHSS: []int{8, 9, 10, 11},
		TXPowerLens: []int{8}, RX1DR: maxDRminusOff(7, 5), PositiveOffsets: 5, ExtraChannels: true, CFListMaxDR: 5})

	e433 := three(433175000, 433375000, 433575000, 0, 5)
	add(&Region{Name: "EU433", Uplink: e433, Downlink: e433, RX2Freq: 434665000, RX2DR: 0, PingSlot: 434665000,
		DataRates:   with(sf12to7(125), map[int]DRDef{6: lora(7, 250, true, true), 7: fsk}),
		TXPowerLens: []int{6}, RX1DR: maxDRminusOff(7, 5), PositiveOffsets: 5, ExtraChannels: true, CFListMaxDR: 5})

	cn779 := three(779500000, 779700000, 779900000, 0, 5)
	add(&Region{Name: "CN779", Uplink: cn779, Downlink: cn779, RX2Freq: 786000000, RX2DR: 0, PingSlot: 785000000,
		DataRates:   with(sf12to7(125), map[int]DRDef{6: lora(7, 250, true, true), 7: fsk}),
		TXPowerLens: []int{6}, RX1DR: maxDRminusOff(7, 5), PositiveOffsets: 5, ExtraChannels: true, CFListMaxDR: 5})

	ru := []Chan{{868900000, 0, 5}, {869100000, 0, 5}}
	add(&Region{Name: "RU864", Uplink: ru, Downlink: ru, RX2Freq: 869100000, RX2DR: 0, PingSlot: 868900000,
		DataRates:   with(sf12to7(125), map[int]DRDef{6: lora(7, 250, true, true), 7: fsk}),
		TXPowerLens: []int{8}, RX1DR: maxDRminusOff(7, 5), PositiveOffsets: 5, ExtraChannels: true, CFListMaxDR: 5})

	in := three(865062500, 865402500, 865985000, 0, 5)
	add(&Region{Name: "IN865", Uplink: in, Downlink: in, RX2Freq: 866550000, RX2DR: 2, PingSlot: 866550000,
		DataRates:   with(sf12to7(125), map[int]DRDef{7: fsk}),
		TXPowerLens: []int{11},
		// offsets 0..5: max(DR-off, 0) for DR0..5 (the FSK row and offsets 6/7 are table-defined)
		RX1DR: maxDRminusOff(5, 5), PositiveOffsets: 5, ExtraChannels: true, CFListMaxDR: 5})

	kr := three(922100000, 922300000, 922500000, 0, 5)
	add(&Region{Name: "KR920", Uplink: kr, Downlink: kr, RX2Freq: 921900000, RX2DR: 0, PingSlot: 923100000,
		DataRates:   sf12to7(125),
		TXPowerLens: []int{8}, RX1DR: maxDRminusOff(5, 5), PositiveOffsets: 5, ExtraChannels: true, CFListMaxDR: 5})

	ism := three(2403000000, 2425000000, 2479000000, 0, 7)
	ismDR := map[int]DRDef{}
	for i := 0; i <= 7; i++ {
		ismDR[i] = lora(12-i, 812, true, true)
	}
	add(&Region{Name: "ISM2400", Uplink: ism, Downlink: ism, RX2Freq: 2423000000, RX2DR: 0, PingSlot: 2424000000,
		DataRates: ismDR, TXPowerLens: []int{8}, RX1DR: maxDRminusOff(7, 5), PositiveOffsets: 5, ExtraChannels: true, CFListMaxDR: 7})

	add(as923("AS923", 0))
	add(as923("AS923-2", -1800000))
	add(as923("AS923-3", -6600000))
	add(as923("AS923-4", -5900000))

	usDown := gen(8, 923300000, 600000, 8, 13)
	usDR := map[int]DRDef{0: lora(10, 125, true, false), 1: lora(9, 125, true, false), 2: lora(8, 125, true, false), 3: lora(7, 125, true, false), 4: lora(8, 500, true, false)}
	for i := 8; i <= 13; i++ {
		usDR[i] = lora(12-(i-8), 500, false, true)
	}
	add(&Region{Name: "US915", RX1Mod: 8,
		Uplink:   append(gen(64, 902300000, 200000, 0, 3), gen(8, 903000000, 1600000, 4, 4)...),
		Downlink: usDown, RX2Freq: 923300000, RX2DR: 8, PingHop: freqs(usDown),
		DataRates: usDR, LRFHSS: []int{5, 6}, TXPowerLens: []int{11, 15},
		RX1DR: func(dr, off int, _ bool) (int, bool) {
			if dr < 0 || dr > 4 || off < 0 || off > 3 {
				return 0, false
			}
			return clamp(10+dr-off, 8, 13), true
		}, PositiveOffsets: 3})

	auDR := sf12to7(125)
	for k, v := range auDR {
		v.Down = false
		auDR[k] = v
	}
	auDR[6] = lora(8, 500, true, false)
	for i := 8; i <= 13; i++ {
		auDR[i] = lora(12-(i-8), 500, false, true)
	}
	add(&Region{Name: "AU915", RX1Mod: 8,
		Uplink:   append(gen(64, 915200000, 200000, 0, 5), gen(8, 915900000, 1600000, 6, 6)...),
		Downlink: usDown, RX2Freq: 923300000, RX2DR: 8, PingHop: freqs(usDown),
		DataRates: auDR, LRFHSS: []int{7}, TXPowerLens: []int{11, 15},
		RX1DR: func(dr, off int, _ bool) (int, bool) {
			if dr < 0 || dr > 6 || off < 0 || off > 5 {
				return 0, false
			}
			return clamp(8+dr-off, 8, 13), true
		}, PositiveOffsets: 5})

	add(&Region{Name: "CN470", RX1Mod: 48,
		Uplink: gen(96, 470300000, 200000, 0, 5), Downlink: gen(48, 500300000, 200000, 0, 5),
		RX2Freq: 505300000, RX2DR: 0, PingHop: freqs(gen(8, 508300000, 200000, 0, 5)),
		DataRates:   sf12to7(125), // DR6/DR7 differ between the 1.0.x plan and RP002: not pinned
		Unpinned:    []int{6, 7},
		TXPowerLens: []int{8}, RX1DR: maxDRminusOff(5, 5), PositiveOffsets: 5})
}

// RegionNames lists the 14 common band names.
var RegionNames = []string{"EU868", "US915", "CN779", "EU433", "AU915", "CN470", "AS923", "AS923-2", "AS923-3", "AS923-4", "KR920", "IN865", "RU864", "ISM2400"}
