package spec

// LinkADRReq channel-mask semantics of an end-device (LoRaWAN 1.0.x/1.1 §5.2
// and the Regional Parameters' ChMaskCntl tables), as an independent model.

// LinkADR is one LinkADRReq as far as channel masks are concerned.
type LinkADR struct {
	ChMaskCntl int
	ChMask     [16]bool
}

// ApplyLinkADR applies the commands to a device's channel state (enabled[i]
// for the n channels of the plan). fixed72 selects the US915/AU915 semantics
// (64 x 125 kHz + 8 x 500 kHz). ok=false: a device would reject the block
// (mask refers to a channel that does not exist, or ChMaskCntl is RFU).
func ApplyLinkADR(enabled []bool, cmds []LinkADR, fixed72 bool) (out []bool, ok bool) {
	out = append([]bool{}, enabled...)
	n := len(out)
	for _, c := range cmds {
		switch {
		case fixed72 && (c.ChMaskCntl == 6 || c.ChMaskCntl == 7):
			for i := 0; i < 64 && i < n; i++ {
				out[i] = c.ChMaskCntl == 6
			}
			for i := 0; i < 16; i++ {
				if i < 8 {
					if 64+i < n {
						out[64+i] = c.ChMask[i]
					}
				} else if c.ChMask[i] {
					return nil, false // RFU bits
				}
			}
		case c.ChMaskCntl >= 0 && c.ChMaskCntl*16 < n:
			for i := 0; i < 16; i++ {
				idx := c.ChMaskCntl*16 + i
				if idx < n {
					out[idx] = c.ChMask[i]
				} else if c.ChMask[i] {
					return nil, false
				}
			}
		default:
			return nil, false
		}
	}
	return out, true
}
