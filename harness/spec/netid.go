package spec

// LoRaWAN Backend Interfaces 1.0 §"DevAddr assignment": NetID types and the
// DevAddr format derived from them, in plain integer arithmetic.

var netIDIDBits = [8]int{6, 6, 9, 21, 21, 21, 21, 21}
var nwkIDBits = [8]int{6, 6, 9, 11, 12, 13, 15, 17}

// NetIDType returns the 3 most significant bits of the 24-bit NetID.
func NetIDType(netID uint32) int { return int(netID>>21) & 7 }

// NetIDID returns the ID field of the NetID and its width in bits.
func NetIDID(netID uint32) (id uint32, bits int) {
	bits = netIDIDBits[NetIDType(netID)]
	return netID & (1<<uint(bits) - 1), bits
}

// AddrPrefixLen returns the length of the type prefix of a DevAddr of the type.
func AddrPrefixLen(t int) int { return t + 1 }

// NwkIDBits returns the width of the NwkID field of a DevAddr of the type.
func NwkIDBits(t int) int { return nwkIDBits[t] }

// AddrSetPrefix returns addr with the type prefix and NwkID of netID.
func AddrSetPrefix(addr, netID uint32) uint32 {
	t := NetIDType(netID)
	p := AddrPrefixLen(t)
	nb := nwkIDBits[t]
	id, _ := NetIDID(netID)
	nwkID := id & (1<<uint(nb) - 1)
	prefix := uint32(1)<<uint(p) - 2 // t ones followed by a zero
	rest := uint(32 - p - nb)
	return prefix<<uint(32-p) | nwkID<<rest | addr&(1<<rest-1)
}

// AddrType returns the number of leading one bits (0..7), or -1 for 0xFF......
func AddrType(addr uint32) int {
	for t := 0; t < 8; t++ {
		if addr&(1<<uint(31-t)) == 0 {
			return t
		}
	}
	return -1
}

// AddrNwkID returns the NwkID field of the address and its width; ok=false
// when the address has no valid type prefix.
func AddrNwkID(addr uint32) (nwkID uint32, bits int, ok bool) {
	t := AddrType(addr)
	if t < 0 {
		return 0, 0, false
	}
	p := AddrPrefixLen(t)
	nb := nwkIDBits[t]
	return addr << uint(p) >> uint(32-nb), nb, true
}

// AddrIsNetID: the address carries the type prefix and NwkID derived from netID.
func AddrIsNetID(addr, netID uint32) bool {
	t := NetIDType(netID)
	if AddrType(addr) != t {
		return false
	}
	id, _ := NetIDID(netID)
	n, nb, _ := AddrNwkID(addr)
	return n == id&(1<<uint(nb)-1)
}

// RightAligned renders v in ceil(bits/8) big-endian bytes.
func RightAligned(v uint32, bits int) []byte {
	n := (bits + 7) / 8
	out := make([]byte, n)
	for i := 0; i < n; i++ {
		out[n-1-i] = byte(v >> uint(8*i))
	}
	return out
}
