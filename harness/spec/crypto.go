// Package spec holds the reference models the monitors compare the library
// against. Nothing in this package imports the library: every model is
// written from the specification text (LoRaWAN 1.0.x / 1.1, RFC 4493,
// RFC 3394, Regional Parameters, TS003-TS006, AN1200.13) on top of the Go
// standard library only.
package spec

import (
	"crypto/aes"
	"crypto/cipher"
	"encoding/binary"
	"errors"
)

func mustAES(key []byte) cipher.Block {
	b, err := aes.NewCipher(key)
	if err != nil {
		panic(err)
	}
	return b
}

// ---------------------------------------------------------------- RFC 4493

func shl1(in [16]byte) (out [16]byte, carry byte) {
	for i := 15; i >= 0; i-- {
		out[i] = in[i]<<1 | carry
		carry = in[i] >> 7
	}
	return
}

// CMAC is AES-CMAC (RFC 4493) with a 128-bit key.
func CMAC(key [16]byte, msg []byte) [16]byte {
	blk := mustAES(key[:])
	var l [16]byte
	blk.Encrypt(l[:], l[:])
	k1, c := shl1(l)
	if c != 0 {
		k1[15] ^= 0x87
	}
	k2, c := shl1(k1)
	if c != 0 {
		k2[15] ^= 0x87
	}

	n := (len(msg) + 15) / 16
	complete := n > 0 && len(msg)%16 == 0
	if n == 0 {
		n = 1
	}
	var last [16]byte
	tail := msg[(n-1)*16:]
	if complete {
		copy(last[:], tail)
		for i := range last {
			last[i] ^= k1[i]
		}
	} else {
		copy(last[:], tail)
		last[len(tail)] = 0x80
		for i := range last {
			last[i] ^= k2[i]
		}
	}

	var x [16]byte
	for i := 0; i < n-1; i++ {
		for j := 0; j < 16; j++ {
			x[j] ^= msg[i*16+j]
		}
		blk.Encrypt(x[:], x[:])
	}
	for j := 0; j < 16; j++ {
		x[j] ^= last[j]
	}
	blk.Encrypt(x[:], x[:])
	return x
}

func rev(b []byte) []byte {
	out := make([]byte, len(b))
	for i := range b {
		out[len(b)-1-i] = b[i]
	}
	return out
}

// ---------------------------------------------------------------- data frames

// DataFrame is the spec model's view of a data message. DevAddr is in display
// order (most significant byte first); FPort < 0 means absent.
type DataFrame struct {
	MType      byte // 2 unconfirmed up, 3 unconfirmed down, 4 confirmed up, 5 confirmed down
	Major      byte
	DevAddr    [4]byte
	ADR        bool
	ADRACKReq  bool
	ACK        bool
	Bit4       bool // FPending (downlink) / ClassB (uplink)
	FCnt       uint32
	FOpts      []byte
	FPort      int
	FRMPayload []byte
}

// Uplink reports the direction encoded in the MType.
func (f DataFrame) Uplink() bool { return f.MType == 2 || f.MType == 4 }

// MHDR returns the MAC header byte.
func (f DataFrame) MHDR() byte { return f.MType<<5 | f.Major&3 }

// MACPayload serialises FHDR | FPort | FRMPayload as LoRaWAN 1.0.x/1.1 §4.3.
func (f DataFrame) MACPayload() []byte {
	out := rev(f.DevAddr[:])
	var fctrl byte
	if f.ADR {
		fctrl |= 0x80
	}
	if f.ADRACKReq {
		fctrl |= 0x40
	}
	if f.ACK {
		fctrl |= 0x20
	}
	if f.Bit4 {
		fctrl |= 0x10
	}
	fctrl |= byte(len(f.FOpts)) & 0x0f
	out = append(out, fctrl, byte(f.FCnt), byte(f.FCnt>>8))
	out = append(out, f.FOpts...)
	if f.FPort >= 0 {
		out = append(out, byte(f.FPort))
		out = append(out, f.FRMPayload...)
	}
	return out
}

// Msg is MHDR | MACPayload, the byte string the MIC is computed over.
func (f DataFrame) Msg() []byte { return append([]byte{f.MHDR()}, f.MACPayload()...) }

func micBlock(confFCnt uint16, txDR, txCh, dir byte, devAddr [4]byte, fcnt uint32, n int) []byte {
	b := make([]byte, 16)
	b[0] = 0x49
	binary.LittleEndian.PutUint16(b[1:3], confFCnt)
	b[3] = txDR
	b[4] = txCh
	b[5] = dir
	copy(b[6:10], rev(devAddr[:]))
	binary.LittleEndian.PutUint32(b[10:14], fcnt)
	b[15] = byte(n)
	return b
}

// UplinkMIC is the spec MIC of an uplink data frame. v11 selects LoRaWAN 1.1.
func UplinkMIC(v11 bool, confFCnt uint32, txDR, txCh byte, fNwkSIntKey, sNwkSIntKey [16]byte, ack bool, devAddr [4]byte, fcnt uint32, msg []byte) [4]byte {
	var out [4]byte
	b0 := micBlock(0, 0, 0, 0, devAddr, fcnt, len(msg))
	cf := CMAC(fNwkSIntKey, append(b0, msg...))
	if !v11 {
		copy(out[:], cf[:4])
		return out
	}
	var c uint16
	if ack {
		c = uint16(confFCnt)
	}
	b1 := micBlock(c, txDR, txCh, 0, devAddr, fcnt, len(msg))
	cs := CMAC(sNwkSIntKey, append(b1, msg...))
	copy(out[0:2], cs[:2])
	copy(out[2:4], cf[:2])
	return out
}

// UplinkCMACF returns the first two bytes of cmacF (what a forwarding network
// server checks in 1.1).
func UplinkCMACF(fNwkSIntKey [16]byte, devAddr [4]byte, fcnt uint32, msg []byte) [2]byte {
	b0 := micBlock(0, 0, 0, 0, devAddr, fcnt, len(msg))
	cf := CMAC(fNwkSIntKey, append(b0, msg...))
	return [2]byte{cf[0], cf[1]}
}

// DownlinkMIC is the spec MIC of a downlink data frame.
func DownlinkMIC(v11 bool, confFCnt uint32, sNwkSIntKey [16]byte, ack bool, devAddr [4]byte, fcnt uint32, msg []byte) [4]byte {
	var c uint16
	if v11 && ack {
		c = uint16(confFCnt)
	}
	b0 := micBlock(c, 0, 0, 1, devAddr, fcnt, len(msg))
	m := CMAC(sNwkSIntKey, append(b0, msg...))
	var out [4]byte
	copy(out[:], m[:4])
	return out
}

// FRMKeystream returns n bytes of the FRMPayload keystream S = S1|S2|..
func FRMKeystream(key [16]byte, uplink bool, devAddr [4]byte, fcnt uint32, n int) []byte {
	blk := mustAES(key[:])
	var out []byte
	for i := 1; len(out) < n; i++ {
		a := make([]byte, 16)
		a[0] = 0x01
		if !uplink {
			a[5] = 1
		}
		copy(a[6:10], rev(devAddr[:]))
		binary.LittleEndian.PutUint32(a[10:14], fcnt)
		a[15] = byte(i)
		s := make([]byte, 16)
		blk.Encrypt(s, a)
		out = append(out, s...)
	}
	return out[:n]
}

// FOptsKeystream is the single block used for FOpts encryption (LoRaWAN 1.1
// with the FOpts-encryption erratum: A[4] = 0x01 for FCntUp/NFCntDown, 0x02
// for AFCntDown; A[15] = 0x01).
func FOptsKeystream(key [16]byte, aFCntDown, uplink bool, devAddr [4]byte, fcnt uint32) []byte {
	blk := mustAES(key[:])
	a := make([]byte, 16)
	a[0] = 0x01
	if aFCntDown {
		a[4] = 0x02
	} else {
		a[4] = 0x01
	}
	if !uplink {
		a[5] = 1
	}
	copy(a[6:10], rev(devAddr[:]))
	binary.LittleEndian.PutUint32(a[10:14], fcnt)
	a[15] = 0x01
	s := make([]byte, 16)
	blk.Encrypt(s, a)
	return s
}

// XOR returns a ^ ks[:len(a)].
func XOR(a, ks []byte) []byte {
	out := make([]byte, len(a))
	for i := range a {
		out[i] = a[i] ^ ks[i]
	}
	return out
}

// ---------------------------------------------------------------- join messages

// JoinRequestBytes serialises MHDR|JoinEUI|DevEUI|DevNonce.
func JoinRequestBytes(mhdr byte, joinEUI, devEUI [8]byte, devNonce uint16) []byte {
	out := []byte{mhdr}
	out = append(out, rev(joinEUI[:])...)
	out = append(out, rev(devEUI[:])...)
	return append(out, byte(devNonce), byte(devNonce>>8))
}

// Rejoin02Bytes serialises MHDR|RejoinType|NetID|DevEUI|RJcount0.
func Rejoin02Bytes(mhdr, typ byte, netID [3]byte, devEUI [8]byte, rjCount uint16) []byte {
	out := []byte{mhdr, typ}
	out = append(out, rev(netID[:])...)
	out = append(out, rev(devEUI[:])...)
	return append(out, byte(rjCount), byte(rjCount>>8))
}

// Rejoin1Bytes serialises MHDR|RejoinType|JoinEUI|DevEUI|RJcount1.
func Rejoin1Bytes(mhdr, typ byte, joinEUI, devEUI [8]byte, rjCount uint16) []byte {
	out := []byte{mhdr, typ}
	out = append(out, rev(joinEUI[:])...)
	out = append(out, rev(devEUI[:])...)
	return append(out, byte(rjCount), byte(rjCount>>8))
}

// MIC4 is cmac(key, msg)[0..3].
func MIC4(key [16]byte, msg []byte) [4]byte {
	m := CMAC(key, msg)
	return [4]byte{m[0], m[1], m[2], m[3]}
}

// JoinAccept is the spec model's join-accept payload. CFList is nil or 16 bytes.
type JoinAccept struct {
	JoinNonce  uint32 // < 2^24
	NetID      [3]byte
	DevAddr    [4]byte
	DLSettings byte
	RXDelay    byte
	CFList     []byte
}

// Payload serialises JoinNonce|NetID|DevAddr|DLSettings|RxDelay|CFList.
func (j JoinAccept) Payload() []byte {
	out := []byte{byte(j.JoinNonce), byte(j.JoinNonce >> 8), byte(j.JoinNonce >> 16)}
	out = append(out, rev(j.NetID[:])...)
	out = append(out, rev(j.DevAddr[:])...)
	out = append(out, j.DLSettings, j.RXDelay)
	return append(out, j.CFList...)
}

// JoinAcceptMIC computes the join-accept MIC: 1.0 form, or with OptNeg (bit 7
// of DLSettings) the 1.1 form over JoinReqType|JoinEUI|DevNonce|MHDR|payload.
func JoinAcceptMIC(key [16]byte, mhdr byte, j JoinAccept, joinReqType byte, joinEUI [8]byte, devNonce uint16) [4]byte {
	var msg []byte
	if j.DLSettings&0x80 != 0 {
		msg = append(msg, joinReqType)
		msg = append(msg, rev(joinEUI[:])...)
		msg = append(msg, byte(devNonce), byte(devNonce>>8))
	}
	msg = append(msg, mhdr)
	msg = append(msg, j.Payload()...)
	return MIC4(key, msg)
}

// JoinAcceptEncrypt is aes128_decrypt(key, payload|MIC) in ECB mode; returns the
// ciphertext (without MHDR).
func JoinAcceptEncrypt(key [16]byte, payload []byte, mic [4]byte) ([]byte, error) {
	pt := append(append([]byte{}, payload...), mic[:]...)
	if len(pt)%16 != 0 {
		return nil, errors.New("not a multiple of 16")
	}
	blk := mustAES(key[:])
	ct := make([]byte, len(pt))
	for i := 0; i < len(pt); i += 16 {
		blk.Decrypt(ct[i:i+16], pt[i:i+16])
	}
	return ct, nil
}

// JoinAcceptDecrypt is what a device does: aes128_encrypt over the received
// bytes (payload|MIC); returns payload and MIC.
func JoinAcceptDecrypt(key [16]byte, ct []byte) ([]byte, [4]byte, error) {
	var mic [4]byte
	if len(ct)%16 != 0 || len(ct) == 0 {
		return nil, mic, errors.New("not a multiple of 16")
	}
	blk := mustAES(key[:])
	pt := make([]byte, len(ct))
	for i := 0; i < len(ct); i += 16 {
		blk.Encrypt(pt[i:i+16], ct[i:i+16])
	}
	copy(mic[:], pt[len(pt)-4:])
	return pt[:len(pt)-4], mic, nil
}

// ---------------------------------------------------------------- key derivation

func aesEnc(key [16]byte, block [16]byte) [16]byte {
	var out [16]byte
	mustAES(key[:]).Encrypt(out[:], block[:])
	return out
}

// SessionKey10 derives NwkSKey (typ 1) / AppSKey (typ 2) as LoRaWAN 1.0.x:
// aes128_encrypt(key, typ | JoinNonce | NetID | DevNonce | pad16).
func SessionKey10(key [16]byte, typ byte, joinNonce uint32, netID [3]byte, devNonce uint16) [16]byte {
	var b [16]byte
	b[0] = typ
	b[1], b[2], b[3] = byte(joinNonce), byte(joinNonce>>8), byte(joinNonce>>16)
	copy(b[4:7], rev(netID[:]))
	b[7], b[8] = byte(devNonce), byte(devNonce>>8)
	return aesEnc(key, b)
}

// SessionKey11 derives FNwkSIntKey (1), AppSKey (2), SNwkSIntKey (3),
// NwkSEncKey (4) as LoRaWAN 1.1:
// aes128_encrypt(key, typ | JoinNonce | JoinEUI | DevNonce | pad16).
func SessionKey11(key [16]byte, typ byte, joinNonce uint32, joinEUI [8]byte, devNonce uint16) [16]byte {
	var b [16]byte
	b[0] = typ
	b[1], b[2], b[3] = byte(joinNonce), byte(joinNonce>>8), byte(joinNonce>>16)
	copy(b[4:12], rev(joinEUI[:]))
	b[12], b[13] = byte(devNonce), byte(devNonce>>8)
	return aesEnc(key, b)
}

// JSKey derives JSEncKey (typ 5) / JSIntKey (typ 6): aes128_encrypt(NwkKey, typ | DevEUI | pad16).
func JSKey(nwkKey [16]byte, typ byte, devEUI [8]byte) [16]byte {
	var b [16]byte
	b[0] = typ
	copy(b[1:9], rev(devEUI[:]))
	return aesEnc(nwkKey, b)
}

// McKey is the single-block derivation used by TS005 (remote multicast setup).
func McKey(key [16]byte, block [16]byte) [16]byte { return aesEnc(key, block) }

// ---------------------------------------------------------------- RFC 3394

var kwIV = [8]byte{0xA6, 0xA6, 0xA6, 0xA6, 0xA6, 0xA6, 0xA6, 0xA6}

// KeyWrap wraps plaintext (multiple of 8 bytes, >= 16) with the KEK (16/24/32 bytes).
func KeyWrap(kek, pt []byte) ([]byte, error) {
	if len(pt)%8 != 0 || len(pt) < 16 {
		return nil, errors.New("bad plaintext length")
	}
	blk, err := aes.NewCipher(kek)
	if err != nil {
		return nil, err
	}
	n := len(pt) / 8
	a := kwIV
	r := make([][8]byte, n)
	for i := range r {
		copy(r[i][:], pt[i*8:])
	}
	var b [16]byte
	for j := 0; j <= 5; j++ {
		for i := 0; i < n; i++ {
			copy(b[:8], a[:])
			copy(b[8:], r[i][:])
			blk.Encrypt(b[:], b[:])
			t := uint64(n*j + i + 1)
			copy(a[:], b[:8])
			var tb [8]byte
			binary.BigEndian.PutUint64(tb[:], t)
			for k := range a {
				a[k] ^= tb[k]
			}
			copy(r[i][:], b[8:])
		}
	}
	out := append([]byte{}, a[:]...)
	for i := range r {
		out = append(out, r[i][:]...)
	}
	return out, nil
}

// KeyUnwrap unwraps and checks integrity; ok is false when the RFC 3394
// integrity check fails (or the lengths are not valid).
func KeyUnwrap(kek, ct []byte) (pt []byte, ok bool) {
	if len(ct)%8 != 0 || len(ct) < 24 {
		return nil, false
	}
	blk, err := aes.NewCipher(kek)
	if err != nil {
		return nil, false
	}
	n := len(ct)/8 - 1
	var a [8]byte
	copy(a[:], ct[:8])
	r := make([][8]byte, n)
	for i := range r {
		copy(r[i][:], ct[(i+1)*8:])
	}
	var b [16]byte
	for j := 5; j >= 0; j-- {
		for i := n - 1; i >= 0; i-- {
			t := uint64(n*j + i + 1)
			var tb [8]byte
			binary.BigEndian.PutUint64(tb[:], t)
			for k := range a {
				b[k] = a[k] ^ tb[k]
			}
			copy(b[8:], r[i][:])
			blk.Decrypt(b[:], b[:])
			copy(a[:], b[:8])
			copy(r[i][:], b[8:])
		}
	}
	if a != kwIV {
		return nil, false
	}
	for i := range r {
		pt = append(pt, r[i][:]...)
	}
	return pt, true
}
