package spec

import (
	"bytes"
	"fmt"
)

// A LoRaWAN 1.0 / 1.1 end-device as far as (re)joining is concerned, written
// from LoRaWAN 1.0.x §6.2 and LoRaWAN 1.1 §6.1-6.2.

// Device holds the root keys and identifiers.
type Device struct {
	DevEUI  [8]byte
	JoinEUI [8]byte
	NwkKey  [16]byte // for a 1.0 device this is its single AppKey
	AppKey  [16]byte
}

// JoinRequest builds MHDR|JoinEUI|DevEUI|DevNonce|MIC.
func (d Device) JoinRequest(devNonce uint16) []byte {
	msg := JoinRequestBytes(0x00, d.JoinEUI, d.DevEUI, devNonce)
	mic := MIC4(d.NwkKey, msg)
	return append(msg, mic[:]...)
}

// RejoinRequest builds a rejoin-request of type 0, 1 or 2. sNwkSIntKey signs
// types 0 and 2, JSIntKey type 1.
func (d Device) RejoinRequest(typ byte, netID [3]byte, rjCount uint16, sNwkSIntKey [16]byte) []byte {
	var msg []byte
	var key [16]byte
	if typ == 1 {
		msg = Rejoin1Bytes(6<<5, typ, d.JoinEUI, d.DevEUI, rjCount)
		key = JSKey(d.NwkKey, 6, d.DevEUI)
	} else {
		msg = Rejoin02Bytes(6<<5, typ, netID, d.DevEUI, rjCount)
		key = sNwkSIntKey
	}
	mic := MIC4(key, msg)
	return append(msg, mic[:]...)
}

// Accepted is what the device learns from a join-accept it accepts.
type Accepted struct {
	JA                                        JoinAccept
	OptNeg                                    bool
	FNwkSIntKey, SNwkSIntKey, NwkSEncKey, App [16]byte // 1.1
	NwkSKey                                   [16]byte // 1.0
}

// ProcessJoinAccept decrypts and verifies a join-accept (phy = MHDR|ciphertext)
// answering a join-request (reqType 0xFF) or a rejoin-request (reqType 0,1,2)
// that carried nonce (DevNonce or RJcount).
func (d Device) ProcessJoinAccept(phy []byte, reqType byte, nonce uint16) (Accepted, error) {
	var a Accepted
	if len(phy) != 17 && len(phy) != 33 {
		return a, fmt.Errorf("join-accept of %d bytes", len(phy))
	}
	if phy[0]>>5 != 1 {
		return a, fmt.Errorf("MHDR %#x is not a join-accept", phy[0])
	}
	encKey := d.NwkKey
	if reqType != 0xff {
		encKey = JSKey(d.NwkKey, 5, d.DevEUI) // JSEncKey
	}
	pl, mic, err := JoinAcceptDecrypt(encKey, phy[1:])
	if err != nil {
		return a, err
	}
	ja := JoinAccept{
		JoinNonce:  uint32(pl[0]) | uint32(pl[1])<<8 | uint32(pl[2])<<16,
		NetID:      [3]byte{pl[5], pl[4], pl[3]},
		DevAddr:    [4]byte{pl[9], pl[8], pl[7], pl[6]},
		DLSettings: pl[10],
		RXDelay:    pl[11],
	}
	if len(pl) == 28 {
		ja.CFList = append([]byte{}, pl[12:]...)
	}
	a.JA = ja
	a.OptNeg = ja.DLSettings&0x80 != 0
	micKey := d.NwkKey
	if a.OptNeg {
		micKey = JSKey(d.NwkKey, 6, d.DevEUI) // JSIntKey
	}
	want := JoinAcceptMIC(micKey, phy[0], ja, reqType, d.JoinEUI, nonce)
	if want != mic {
		return a, fmt.Errorf("join-accept MIC %x, device computes %x (OptNeg=%v)", mic, want, a.OptNeg)
	}
	if !bytes.Equal(ja.Payload(), pl) {
		return a, fmt.Errorf("internal: payload re-serialisation differs")
	}
	if a.OptNeg {
		a.FNwkSIntKey = SessionKey11(d.NwkKey, 1, ja.JoinNonce, d.JoinEUI, nonce)
		a.App = SessionKey11(d.AppKey, 2, ja.JoinNonce, d.JoinEUI, nonce)
		a.SNwkSIntKey = SessionKey11(d.NwkKey, 3, ja.JoinNonce, d.JoinEUI, nonce)
		a.NwkSEncKey = SessionKey11(d.NwkKey, 4, ja.JoinNonce, d.JoinEUI, nonce)
	} else {
		a.NwkSKey = SessionKey10(d.NwkKey, 1, ja.JoinNonce, ja.NetID, nonce)
		a.App = SessionKey10(d.NwkKey, 2, ja.JoinNonce, ja.NetID, nonce)
	}
	return a, nil
}
