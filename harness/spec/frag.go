package spec

// TS004-1.0.0 (Fragmented Data Block Transport) §8: parity-check matrix
// generator, re-implemented from the specification's pseudo code, and an
// independent GF(2) erasure decoder.

// Prbs23 is one step of the 23-bit PRBS generator of TS004.
func Prbs23(x uint32) uint32 {
	b0 := x & 1
	b1 := (x >> 5) & 1
	return (x >> 1) + ((b0 ^ b1) << 22)
}

func isPow2(n int) bool { return n > 0 && n&(n-1) == 0 }

// MatrixLine returns line N (N >= 1) of the parity matrix for M data
// fragments as a bit set: bit i set <=> data fragment i is XORed into coded
// fragment M+N.
func MatrixLine(n, m int) []uint64 {
	line := make([]uint64, (m+63)/64)
	mod := m
	if isPow2(m) {
		mod = m + 1
	}
	x := uint32(1 + 1001*n)
	for k := 0; k < m>>1; k++ {
		r := 1 << 16
		for r >= m {
			x = Prbs23(x)
			r = int(x % uint32(mod))
		}
		line[r/64] |= 1 << uint(r%64)
	}
	return line
}

// GF2Solve reconstructs m data fragments (each size bytes) from received
// fragments given as (selection vector, payload) pairs. ok=false when the
// selection vectors do not have full rank.
func GF2Solve(m, size int, vecs [][]uint64, payloads [][]byte) (data [][]byte, ok bool) {
	words := (m + 63) / 64
	type row struct {
		v []uint64
		p []byte
	}
	rows := make([]row, len(vecs))
	for i := range vecs {
		rows[i] = row{append([]uint64{}, vecs[i]...), append([]byte{}, payloads[i]...)}
	}
	pivotRow := make([]int, m)
	used := 0
	for col := 0; col < m; col++ {
		w, b := col/64, uint(col%64)
		sel := -1
		for i := used; i < len(rows); i++ {
			if rows[i].v[w]>>b&1 == 1 {
				sel = i
				break
			}
		}
		if sel < 0 {
			return nil, false
		}
		rows[used], rows[sel] = rows[sel], rows[used]
		for i := range rows {
			if i != used && rows[i].v[w]>>b&1 == 1 {
				for k := 0; k < words; k++ {
					rows[i].v[k] ^= rows[used].v[k]
				}
				for k := 0; k < size; k++ {
					rows[i].p[k] ^= rows[used].p[k]
				}
			}
		}
		pivotRow[col] = used
		used++
	}
	data = make([][]byte, m)
	for col := 0; col < m; col++ {
		data[col] = rows[pivotRow[col]].p
	}
	return data, true
}
