// lwmon drives the runtime monitors for brocaar/lorawan.
//
//	lwmon run    -prop C01 -tier quick|thorough [-seed N] [-root /verif] [-racebin path]
//	lwmon worker ...            (internal: one batch of cases in a child process)
//	lwmon replay -file replays/C01/x.json
//	lwmon list
package main

import (
	"bytes"
	"crypto/sha1"
	"encoding/hex"
	"encoding/json"
	"flag"
	"fmt"
	"io"
	"log"
	"os"
	"os/exec"
	"path/filepath"
	"regexp"
	"runtime"
	"runtime/pprof"
	"sort"
	"strconv"
	"strings"
	"sync"
	"time"

	"lwverif/core"
	_ "lwverif/mon"
)

func main() {
	if len(os.Args) < 2 {
		fmt.Fprintln(os.Stderr, "usage: lwmon run|worker|replay|list ...")
		os.Exit(2)
	}
	switch os.Args[1] {
	case "run":
		os.Exit(cmdRun(os.Args[2:]))
	case "worker":
		os.Exit(cmdWorker(os.Args[2:]))
	case "replay":
		os.Exit(cmdReplay(os.Args[2:]))
	case "list":
		for _, id := range core.IDs() {
			fmt.Println(id)
		}
	default:
		fmt.Fprintln(os.Stderr, "unknown command", os.Args[1])
		os.Exit(2)
	}
}

// ---------------------------------------------------------------- worker

func cmdWorker(args []string) int {
	fs := flag.NewFlagSet("worker", flag.ExitOnError)
	prop := fs.String("prop", "", "")
	tier := fs.String("tier", "quick", "")
	seed := fs.Uint64("seed", 0, "")
	batch := fs.Int("batch", 0, "")
	nb := fs.Int("nbatches", 1, "")
	out := fs.String("out", "", "")
	prog := fs.String("progress", "", "")
	racePass := fs.Bool("race-pass", false, "")
	onlyMon := fs.String("only-monitor", "", "")
	onlyCase := fs.Int64("only-case", -1, "")
	fs.Parse(args)

	// the library logs through the global logger on MAC decode errors
	log.SetOutput(io.Discard)

	p := core.Lookup(*prop)
	if p == nil {
		fmt.Fprintln(os.Stderr, "unknown property", *prop)
		return 2
	}
	c := core.NewCtx(*prop, *tier, *seed, *batch, *nb, *prog)
	go workerWatchdog(c, *tier)
	if *onlyMon != "" {
		c.Replay = true
		c.OnlyMonitor = *onlyMon
		c.OnlyCase = *onlyCase
	}
	if *racePass {
		if !core.RaceEnabled {
			fmt.Fprintln(os.Stderr, "race pass requested in a binary built without -race")
			return 2
		}
		if p.RunRace != nil {
			p.RunRace(c)
		}
	} else {
		if !c.Replay && core.Prelude != nil && *batch%4 == 3 {
			core.Prelude(*batch)
		}
		p.Run(c)
		if core.RaceEnabled && c.Replay && p.RunRace != nil {
			p.RunRace(c)
		}
	}
	if err := c.Finish(*out); err != nil {
		fmt.Fprintln(os.Stderr, "finish:", err)
		return 2
	}
	return 0
}

// workerWatchdog keeps a runaway case from taking the machine down: it ends the
// process (exit 97) when the heap explodes and (exit 98) when one case has been
// current for far longer than any legitimate case. The parent then re-runs that
// single case in a fresh process to tell a real hang/blow-up from a slow box.
func workerWatchdog(c *core.Ctx, tier string) {
	limit := uint64(3 << 30)
	stuckAfter := 90 * time.Second
	if tier == "thorough" {
		stuckAfter = 10 * time.Minute
	}
	last := c.CaseSeq()
	lastChange := time.Now()
	var ms runtime.MemStats
	for {
		time.Sleep(100 * time.Millisecond)
		runtime.ReadMemStats(&ms)
		if ms.HeapAlloc > limit {
			c.FlushProgress()
			fmt.Fprintf(os.Stderr, "lwmon: heap grew beyond %d MiB inside one case; aborting this worker\n", limit>>20)
			os.Exit(97)
		}
		if s := c.CaseSeq(); s != last {
			last, lastChange = s, time.Now()
		} else if s != 0 && time.Since(lastChange) > stuckAfter {
			c.FlushProgress()
			fmt.Fprintf(os.Stderr, "lwmon: one case has been running for %s; aborting this worker. Goroutines at that point:\n", stuckAfter)
			pprof.Lookup("goroutine").WriteTo(os.Stderr, 1)
			os.Exit(98)
		}
	}
}

// ---------------------------------------------------------------- replay

type replayFile struct {
	Property string `json:"property"`
	Tier     string `json:"tier"`
	Seed     uint64 `json:"seed"`
	Monitor  string `json:"monitor"`
	Case     int64  `json:"case"`
	Key      string `json:"key"`
	Detail   string `json:"detail"`
	Race     bool   `json:"race,omitempty"`
	Arch     string `json:"arch,omitempty"`
}

func cmdReplay(args []string) int {
	fs := flag.NewFlagSet("replay", flag.ExitOnError)
	file := fs.String("file", "", "")
	fs.Parse(args)
	b, err := os.ReadFile(*file)
	if err != nil {
		fmt.Fprintln(os.Stderr, err)
		return 2
	}
	var rf replayFile
	if err := json.Unmarshal(b, &rf); err != nil {
		fmt.Fprintln(os.Stderr, err)
		return 2
	}
	log.SetOutput(io.Discard)
	p := core.Lookup(rf.Property)
	if p == nil {
		fmt.Fprintln(os.Stderr, "unknown property", rf.Property)
		return 2
	}
	c := core.NewCtx(rf.Property, rf.Tier, rf.Seed, 0, 1, "")
	c.Replay = true
	c.OnlyMonitor = rf.Monitor
	c.OnlyCase = rf.Case
	fmt.Printf("replaying property=%s monitor=%s case=%d seed=%d tier=%s\nrecorded: %s\n", rf.Property, rf.Monitor, rf.Case, rf.Seed, rf.Tier, rf.Detail)
	if rf.Race {
		if !core.RaceEnabled {
			fmt.Println("this replay needs the -race binary (check.sh builds and uses it)")
			return 2
		}
		if p.RunRace != nil {
			p.RunRace(c)
		}
	} else {
		p.Run(c)
	}
	res := c.Res()
	fmt.Printf("evaluations=%d violations=%d\n", res.Evaluations, len(res.Violations))
	for _, v := range res.Violations {
		fmt.Printf("VIOLATION property=%s replay=%s\n  key=%s\n  %s\n", rf.Property, *file, v.Key, v.Detail)
	}
	if len(res.Violations) > 0 {
		return 1
	}
	return 0
}

// ---------------------------------------------------------------- run

type knownEntry struct {
	Property string `json:"property"`
	Key      string `json:"key"`
	What     string `json:"what"`
	Commit   string `json:"commit,omitempty"`
}

type knownFile struct {
	Findings []knownEntry `json:"findings"`
	Fixed    []knownEntry `json:"fixed"`
}

type childOutcome struct {
	idx      int
	altBin   string // binary this child ran in when it is not the parent's own (the GOARCH=386 build)
	logGlob  string // race-detector log files of this child: when they outgrow raceLogCap the child is stopped
	logCut   bool   // ... which happened
	race     bool
	maxprocs int
	res      *core.Result
	err      error
	timedOut bool
	progMon  string
	progCase int64
	logTail  string
}

// raceLogCap bounds the race-detector output of one race-pass child.
const raceLogCap = 48 << 20

func cmdRun(args []string) int {
	fs := flag.NewFlagSet("run", flag.ExitOnError)
	prop := fs.String("prop", "", "")
	tier := fs.String("tier", "quick", "")
	seedF := fs.Int64("seed", -1, "")
	root := fs.String("root", "/verif", "")
	repo := fs.String("repo", "/repo", "source tree of the library under test (scanned for environment variable names only)")
	racebin := fs.String("racebin", "", "")
	bin386 := fs.String("bin386", "", "the same harness built with GOARCH=386 (optional): a sample of the cases is re-run in it")
	jobs := fs.Int("jobs", 0, "")
	fs.Parse(args)

	start := time.Now()
	p := core.Lookup(*prop)
	if p == nil {
		fmt.Fprintln(os.Stderr, "unknown property", *prop)
		return 2
	}
	var seed uint64
	if *seedF >= 0 {
		seed = uint64(*seedF)
	} else if s := os.Getenv("VERIF_SEED"); s != "" {
		if v, err := strconv.ParseInt(s, 10, 64); err == nil {
			seed = uint64(v)
		}
	}
	if *jobs <= 0 {
		*jobs = runtime.NumCPU()
		if *jobs > 16 {
			*jobs = 16
		}
	}
	self, _ := os.Executable()
	work := filepath.Join(*root, ".work", fmt.Sprintf("%s-%d", *prop, os.Getpid()))
	os.MkdirAll(work, 0o755)
	defer os.RemoveAll(work)

	watchdog := 15 * time.Minute
	if *tier == "thorough" {
		watchdog = 3 * time.Hour
	}

	var mu sync.Mutex
	var outcomes []*childOutcome
	var wg sync.WaitGroup

	runChild := func(o *childOutcome, bin string, extra []string, env []string, wd time.Duration) {
		defer wg.Done()
		tag := fmt.Sprintf("%d", o.idx)
		if o.race {
			tag = fmt.Sprintf("r%d", o.idx)
		}
		outPath := filepath.Join(work, "res_"+tag+".json")
		progPath := filepath.Join(work, "prog_"+tag)
		logPath := filepath.Join(work, "log_"+tag)
		a := append([]string{"worker", "-prop", *prop, "-tier", *tier, "-seed", fmt.Sprint(seed), "-out", outPath, "-progress", progPath}, extra...)
		cmd := exec.Command(bin, a...)
		cmd.Env = append(os.Environ(), env...)
		lf, _ := os.Create(logPath)
		cmd.Stdout = lf
		cmd.Stderr = lf
		if err := cmd.Start(); err != nil {
			o.err = err
			return
		}
		done := make(chan error, 1)
		finished := make(chan struct{})
		go func() { done <- cmd.Wait(); close(finished) }()
		cut := make(chan struct{})
		if o.logGlob != "" {
			// a racy library makes the detector write a report for every occurrence: tens of megabytes hold
			// every distinct report many times over, gigabytes only fill the disk
			go func() {
				for {
					select {
					case <-finished:
						return
					case <-time.After(500 * time.Millisecond):
					}
					var total int64
					files, _ := filepath.Glob(o.logGlob)
					for _, f := range files {
						if st, err := os.Stat(f); err == nil {
							total += st.Size()
						}
					}
					if total > raceLogCap {
						close(cut)
						return
					}
				}
			}()
		}
		select {
		case err := <-done:
			o.err = err
		case <-cut:
			o.logCut = true
			cmd.Process.Kill()
			<-done
			o.err = fmt.Errorf("stopped: more than %d MiB of race reports", raceLogCap>>20)
		case <-time.After(wd):
			o.timedOut = true
			cmd.Process.Signal(os.Interrupt)
			time.Sleep(200 * time.Millisecond)
			cmd.Process.Kill()
			<-done
			o.err = fmt.Errorf("watchdog (%s) fired", wd)
		}
		lf.Close()
		if b, err := os.ReadFile(outPath); err == nil {
			var r core.Result
			if json.Unmarshal(b, &r) == nil && r.Done {
				o.res = &r
			}
		}
		if o.res == nil {
			if b, err := os.ReadFile(progPath); err == nil && len(b) >= 41 {
				o.progMon = strings.TrimSpace(string(b[:40]))
				o.progCase, _ = strconv.ParseInt(strings.TrimSpace(string(b[40:])), 10, 64)
			}
			if b, err := os.ReadFile(logPath); err == nil {
				if len(b) > 3000 {
					b = b[:3000]
				}
				o.logTail = string(b)
			}
		}
		mu.Lock()
		outcomes = append(outcomes, o)
		mu.Unlock()
	}

	libEnvNames := scanEnvNames(*repo)
	if len(libEnvNames) > 0 {
		fmt.Printf("NOTE: the library reads environment variables %v; a quarter of the workers run with them set to 1\n", libEnvNames)
	}
	// normal pass
	nb := *jobs
	for i := 0; i < nb; i++ {
		wg.Add(1)
		o := &childOutcome{idx: i}
		// a quarter of the workers run with GOMAXPROCS=1 and a quarter with 2: code that chooses a path by
		// the number of processors (parallel fast paths) is then driven down both
		var env []string
		switch i % 4 {
		case 1:
			env = []string{"GOMAXPROCS=1"}
		case 2:
			// every environment variable the library's own source reads is set in these workers
			// (behaviour switched by the environment is behaviour of the library all the same)
			for _, n := range libEnvNames {
				env = append(env, n+"=1")
			}
		case 3:
			env = []string{"GOMAXPROCS=2"}
		}
		go runChild(o, self, []string{"-batch", fmt.Sprint(i), "-nbatches", fmt.Sprint(nb)}, env, watchdog)
	}
	wg.Wait()

	// 32-bit pass: a sample of the same case lists (4 of 4*jobs partitions) in a GOARCH=386 build of harness
	// and library - int is 32 bits wide there, which is where conversions and shifts that are fine on amd64 go wrong
	if *bin386 != "" {
		for i := 0; i < 4; i++ {
			wg.Add(1)
			o := &childOutcome{idx: 100 + i, altBin: *bin386}
			go runChild(o, *bin386, []string{"-batch", fmt.Sprint(i), "-nbatches", fmt.Sprint(nb * 4)}, nil, watchdog)
		}
		wg.Wait()
	}

	// race pass (sequential over GOMAXPROCS settings: each run wants the whole machine)
	var raceLogs []string
	raceRuns := 0
	if p.RunRace != nil {
		if *racebin == "" {
			fmt.Printf("INCONCLUSIVE property=%s race binary not supplied\n", *prop)
			return 3
		}
		mps := []int{4, 16}
		if *tier == "thorough" {
			mps = []int{2, 4, 16}
		}
		for k, mp := range mps {
			wg.Add(1)
			lp := filepath.Join(work, fmt.Sprintf("race_%d", k))
			o := &childOutcome{idx: k, race: true, maxprocs: mp, logGlob: lp + ".*"}
			env := []string{
				"GORACE=halt_on_error=0 log_path=" + lp,
				fmt.Sprintf("GOMAXPROCS=%d", mp),
			}
			runChild(o, *racebin, []string{"-race-pass", "-batch", fmt.Sprint(k), "-nbatches", fmt.Sprint(len(mps))}, env, watchdog)
			raceRuns++
			m, _ := filepath.Glob(lp + ".*")
			raceLogs = append(raceLogs, m...)
		}
	}

	// ------------------------------------------------------------ merge
	merged := core.Result{Counters: map[string]int64{}, ViolationCounts: map[string]int64{}, Exhaustive: map[string]bool{}}
	agreeSeen := map[string]int64{}
	shapes := map[uint64]struct{}{}
	shapeCats := map[string]map[uint64]struct{}{}
	inconclusive := []string{}
	sort.Slice(outcomes, func(i, j int) bool {
		if outcomes[i].race != outcomes[j].race {
			return !outcomes[i].race
		}
		return outcomes[i].idx < outcomes[j].idx
	})
	confirmed := map[string][3]string{}
	for _, o := range outcomes {
		if o.res == nil && o.logCut {
			merged.Notes = append(merged.Notes, fmt.Sprintf("race pass %d (GOMAXPROCS=%d) was stopped after %d MiB of race-detector reports; the reports written until then are evaluated", o.idx, o.maxprocs, raceLogCap>>20))
			continue
		}
		if o.res == nil {
			// dead child: attribute and confirm (once per sub-monitor: several workers usually die of the same cause)
			ck := fmt.Sprintf("%v|%s|%v", o.race, o.progMon, o.timedOut)
			var key, detail, inc string
			if prev, ok := confirmed[ck]; ok {
				key, detail, inc = prev[0], prev[1], prev[2]
			} else {
				key, detail, inc = confirmDeath(self, *racebin, work, *prop, *tier, seed, o)
				confirmed[ck] = [3]string{key, detail, inc}
			}
			if inc != "" {
				inconclusive = append(inconclusive, inc)
			} else {
				merged.ViolationCounts[key]++
				merged.Violations = append(merged.Violations, core.Violation{Key: key, Monitor: o.progMon, Case: o.progCase, Detail: detail})
			}
			continue
		}
		r := o.res
		merged.Evaluations += r.Evaluations
		for k, v := range r.Counters {
			if strings.HasPrefix(k, "agree.") {
				// a value every worker process must report identically (fingerprints of things that may not
				// depend on what else the process did before): the first report is kept, a differing one is a violation
				if prev, seen := agreeSeen[k]; !seen {
					agreeSeen[k] = v
					merged.Counters[k] = v
				} else if prev != v {
					key := *prop + "|differs-between-processes|" + strings.TrimPrefix(k, "agree.")
					merged.ViolationCounts[key]++
					merged.Violations = append(merged.Violations, core.Violation{Key: key, Monitor: "cross-process", Case: 0,
						Detail: fmt.Sprintf("worker processes that used the library in different orders report different fingerprints for %s (%x vs %x): the result depends on what the process did before", strings.TrimPrefix(k, "agree."), uint64(prev), uint64(v))})
				}
			} else if strings.HasPrefix(k, "max.") {
				if v > merged.Counters[k] {
					merged.Counters[k] = v
				}
			} else {
				merged.Counters[k] += v
			}
		}
		for _, h := range r.Shapes {
			shapes[h] = struct{}{}
		}
		for cat, hs := range r.ShapeCats {
			if shapeCats[cat] == nil {
				shapeCats[cat] = map[uint64]struct{}{}
			}
			for _, h := range hs {
				shapeCats[cat][h] = struct{}{}
			}
		}
		for k, v := range r.Exhaustive {
			if v {
				merged.Exhaustive[k] = true
			}
		}
		merged.Samples = append(merged.Samples, r.Samples...)
		merged.Notes = append(merged.Notes, r.Notes...)
		for k, v := range r.ViolationCounts {
			merged.ViolationCounts[k] += v
		}
		merged.Violations = append(merged.Violations, r.Violations...)
	}

	// race reports
	raceBlocks := 0
	raceDistinct := map[string]string{}
	for _, lp := range raceLogs {
		f, err := os.Open(lp)
		if err != nil {
			continue
		}
		b, err := io.ReadAll(io.LimitReader(f, raceLogCap+(8<<20)))
		f.Close()
		if err != nil {
			continue
		}
		for _, blk := range splitRaceBlocks(string(b)) {
			raceBlocks++
			k := raceKey(blk)
			if _, ok := raceDistinct[k]; !ok {
				if len(blk) > 4000 {
					blk = blk[:4000]
				}
				raceDistinct[k] = blk
			}
		}
	}
	for k, blk := range raceDistinct {
		key := *prop + "|race|" + k
		merged.ViolationCounts[key]++
		merged.Violations = append(merged.Violations, core.Violation{Key: key, Monitor: "race", Case: 0, Detail: blk})
	}
	if p.RunRace != nil {
		merged.Counters["race.runs"] = int64(raceRuns)
		merged.Counters["race.report_blocks"] = int64(raceBlocks)
		merged.Counters["race.distinct_reports"] = int64(len(raceDistinct))
	}

	// ------------------------------------------------------------ verdict
	known := loadKnown(filepath.Join(*root, "known_findings.json"))
	knownByKey := map[string]knownEntry{}
	for _, e := range known.Findings {
		if e.Property == *prop {
			knownByKey[e.Key] = e
		}
	}

	keys := make([]string, 0, len(merged.ViolationCounts))
	for k := range merged.ViolationCounts {
		keys = append(keys, k)
	}
	sort.Strings(keys)
	firstDetail := map[string]core.Violation{}
	for _, v := range merged.Violations {
		if _, ok := firstDetail[v.Key]; !ok {
			firstDetail[v.Key] = v
		}
	}

	newViol := 0
	knownSeen := 0
	var outLines []string
	repDir := filepath.Join(*root, "replays", *prop)
	for _, k := range keys {
		if e, ok := knownByKey[k]; ok {
			knownSeen++
			outLines = append(outLines, fmt.Sprintf("KNOWN-FINDING: property=%s %s [key=%s, seen %d×]", *prop, e.What, k, merged.ViolationCounts[k]))
			continue
		}
		newViol++
		v := firstDetail[k]
		os.MkdirAll(repDir, 0o755)
		h := sha1.Sum([]byte(k))
		rp := filepath.Join(repDir, hex.EncodeToString(h[:6])+".json")
		rf := replayFile{Property: *prop, Tier: *tier, Seed: seed, Monitor: v.Monitor, Case: v.Case, Key: k, Detail: v.Detail, Race: v.Monitor == "race" || strings.HasPrefix(v.Monitor, "race"), Arch: v.Arch}
		b, _ := json.MarshalIndent(rf, "", " ")
		os.WriteFile(rp, b, 0o644)
		if newViol <= 60 {
			outLines = append(outLines, fmt.Sprintf("VIOLATION property=%s replay=%s", *prop, rp))
			d := v.Detail
			if len(d) > 600 {
				d = d[:600] + "…"
			}
			outLines = append(outLines, fmt.Sprintf("  key=%s count=%d\n  %s", k, merged.ViolationCounts[k], strings.ReplaceAll(d, "\n", "\n  ")))
		}
	}
	for k, e := range knownByKey {
		if _, ok := merged.ViolationCounts[k]; !ok {
			outLines = append(outLines, fmt.Sprintf("NOTE: listed finding not observed in this run (repaired, or the tree changed): property=%s %s [key=%s]", *prop, e.What, k))
		}
	}

	if merged.Evaluations < p.MinEvals && len(inconclusive) == 0 && newViol == 0 {
		inconclusive = append(inconclusive, fmt.Sprintf("only %d evaluations observed (< %d)", merged.Evaluations, p.MinEvals))
	}
	if p.Post != nil && newViol == 0 && len(inconclusive) == 0 {
		inconclusive = append(inconclusive, p.Post(merged.Counters)...)
	}
	if p.RunRace != nil && merged.Counters["race.overlaps"] == 0 && merged.Counters["race.ops"] > 0 && newViol == 0 {
		inconclusive = append(inconclusive, "race workload observed no overlapping operations")
	}

	// ------------------------------------------------------------ evidence
	exh := false
	exhList := []string{}
	for k, v := range merged.Exhaustive {
		if v {
			exhList = append(exhList, k)
		}
	}
	sort.Strings(exhList)
	if len(exhList) > 0 {
		exh = true
	}
	samples := make([]interface{}, 0, len(merged.Samples))
	for i, s := range merged.Samples {
		if i >= 12 {
			break
		}
		var v interface{}
		json.Unmarshal(s, &v)
		samples = append(samples, v)
	}
	if len(samples) == 0 {
		samples = append(samples, "no sample recorded")
	}
	distinct := len(shapes)
	byCat := map[string]int{}
	for cat, hs := range shapeCats {
		byCat[cat] = len(hs)
	}
	cov := map[string]interface{}{
		"distinct_by_category": byCat,
		"evaluations":          merged.Evaluations,
		"distinct_nontrivial":  distinct,
		"rule":                 p.Rule,
		"samples":              samples,
		"counters":             merged.Counters,
		"workers":              nb,
		"known_findings_seen":  knownSeen,
		"new_violation_keys":   newViol,
	}
	if exh {
		cov["exhaustive"] = true
		cov["exhaustive_submonitors"] = exhList
	}
	if len(merged.Notes) > 0 {
		cov["notes"] = dedupe(merged.Notes)
	}
	if len(inconclusive) > 0 {
		cov["inconclusive"] = inconclusive
	}
	ev := map[string]interface{}{
		"property_id": *prop,
		"tier":        *tier,
		"seed":        seed,
		"level":       "exploration",
		"coverage":    cov,
		"assumptions": p.Assumptions,
		"wall_s":      time.Since(start).Seconds(),
		"violations":  newViol,
	}
	os.MkdirAll(filepath.Join(*root, "evidence"), 0o755)
	eb, _ := json.MarshalIndent(ev, "", " ")
	os.WriteFile(filepath.Join(*root, "evidence", *prop+".json"), eb, 0o644)

	for _, l := range outLines {
		fmt.Println(l)
	}
	fmt.Printf("SUMMARY property=%s tier=%s seed=%d evaluations=%d distinct_shapes=%d known_findings_seen=%d new_violations=%d wall=%.1fs\n",
		*prop, *tier, seed, merged.Evaluations, distinct, knownSeen, newViol, time.Since(start).Seconds())
	if newViol > 0 {
		return 1
	}
	if len(inconclusive) > 0 {
		for _, s := range inconclusive {
			fmt.Printf("INCONCLUSIVE property=%s %s\n", *prop, s)
		}
		return 3
	}
	return 0
}

func dedupe(in []string) []string {
	seen := map[string]bool{}
	var out []string
	for _, s := range in {
		if !seen[s] {
			seen[s] = true
			out = append(out, s)
		}
	}
	return out
}

func loadKnown(path string) knownFile {
	var k knownFile
	b, err := os.ReadFile(path)
	if err != nil {
		return k
	}
	json.Unmarshal(b, &k)
	return k
}

// scanEnvNames lists the environment variables the library's non-test source looks up.
func scanEnvNames(repo string) []string {
	re := regexp.MustCompile(`(?:Getenv|LookupEnv)\(\s*"([A-Za-z_][A-Za-z0-9_]*)"`)
	seen := map[string]bool{}
	filepath.Walk(repo, func(p string, info os.FileInfo, err error) error {
		if err != nil {
			return nil
		}
		if info.IsDir() {
			if n := info.Name(); n == ".git" || n == "SEED" || n == "vendor" {
				return filepath.SkipDir
			}
			return nil
		}
		if !strings.HasSuffix(p, ".go") || strings.HasSuffix(p, "_test.go") {
			return nil
		}
		if b, err := os.ReadFile(p); err == nil {
			for _, m := range re.FindAllSubmatch(b, -1) {
				seen[string(m[1])] = true
			}
		}
		return nil
	})
	var out []string
	for n := range seen {
		out = append(out, n)
	}
	sort.Strings(out)
	return out
}

// confirmDeath re-runs the case a dead child was working on, alone, in a fresh
// process. Returns either a violation (key, detail) or an inconclusive reason.
func confirmDeath(self, racebin, work, prop, tier string, seed uint64, o *childOutcome) (key, detail, inconclusive string) {
	what := "died"
	if o.timedOut {
		what = "exceeded the watchdog"
	}
	if ee, ok := o.err.(*exec.ExitError); ok && ee.ExitCode() == 98 {
		o.timedOut = true
		what = "had one case running for too long"
	}
	if o.progMon == "" {
		if o.timedOut {
			return "", "", fmt.Sprintf("worker %d %s before its first case (%v)", o.idx, what, o.err)
		}
		return prop + "|crash|startup", fmt.Sprintf("worker %d died before its first case: %v\n%s", o.idx, o.err, o.logTail), ""
	}
	bin := self
	if o.altBin != "" {
		bin = o.altBin
	}
	extra := []string{}
	env := []string{}
	if o.race {
		bin = racebin
		extra = append(extra, "-race-pass")
		env = append(env, "GORACE=halt_on_error=0")
	}
	outPath := filepath.Join(work, fmt.Sprintf("confirm_%v_%d.json", o.race, o.idx))
	// a case that got stuck on a schedule (goroutines of the case waiting for one another) need not
	// get stuck on every execution: replay it up to three times before calling the death unconfirmed
	attempts := 1
	if o.timedOut {
		attempts = 3
	}
	var err error
	timedOut := false
	tail := ""
	for try := 0; try < attempts; try++ {
		a := append([]string{"worker", "-prop", prop, "-tier", tier, "-seed", fmt.Sprint(seed), "-out", outPath, "-only-monitor", o.progMon, "-only-case", fmt.Sprint(o.progCase)}, extra...)
		cmd := exec.Command(bin, a...)
		cmd.Env = append(os.Environ(), env...)
		var buf bytes.Buffer
		cmd.Stdout = &buf
		cmd.Stderr = &buf
		cmd.Start()
		done := make(chan error, 1)
		go func() { done <- cmd.Wait() }()
		select {
		case err = <-done:
		case <-time.After(120 * time.Second):
			timedOut = true
			cmd.Process.Kill()
			<-done
		}
		tail = buf.String()
		if len(tail) > 3000 {
			tail = tail[:3000]
		}
		if timedOut || err != nil {
			break
		}
	}
	if timedOut {
		return fmt.Sprintf("%s|hang|%s", prop, o.progMon), fmt.Sprintf("case %d of %s does not terminate (worker %s, single-case replay killed after 120 s)", o.progCase, o.progMon, what), ""
	}
	if err != nil {
		if ee, ok := err.(*exec.ExitError); ok && ee.ExitCode() == 98 {
			return fmt.Sprintf("%s|hang|%s", prop, o.progMon), fmt.Sprintf("case %d of %s does not terminate (worker %s; replayed alone in a fresh process it made no progress for the whole watchdog period)\n%s", o.progCase, o.progMon, what, tail), ""
		}
		if harnessPanic(tail) {
			return "", "", fmt.Sprintf("HARNESS-ERROR: the monitor itself panicked at case %d of %s (not the library):\n%s", o.progCase, o.progMon, tail)
		}
		return fmt.Sprintf("%s|crash|%s", prop, o.progMon), fmt.Sprintf("case %d of %s kills the process (runtime fatal): %v\n%s", o.progCase, o.progMon, err, tail), ""
	}
	if o.timedOut {
		return "", "", fmt.Sprintf("worker %d %s at %s case %d; the single-case replay completed normally", o.idx, what, o.progMon, o.progCase)
	}
	// crashed in the batch but not alone: still a fatal the monitors observed
	return fmt.Sprintf("%s|crash|%s", prop, o.progMon), fmt.Sprintf("worker %d died (%v) near case %d of %s; the single-case replay did not reproduce it\n%s", o.idx, o.err, o.progCase, o.progMon, o.logTail), ""
}

// harnessPanic reports whether an unrecovered Go panic originated in harness
// code: the first non-runtime frame of the panicking goroutine is in lwverif/.
func harnessPanic(log string) bool {
	i := strings.Index(log, "panic:")
	if i < 0 {
		return false
	}
	j := strings.Index(log[i:], "[running]:")
	if j < 0 {
		return false
	}
	for _, ln := range strings.Split(log[i+j:], "\n")[1:] {
		ln = strings.TrimSpace(ln)
		if ln == "" || strings.HasPrefix(ln, "/") || strings.HasPrefix(ln, "panic(") || strings.HasPrefix(ln, "runtime.") || strings.HasPrefix(ln, "goroutine") {
			continue
		}
		return strings.HasPrefix(ln, "lwverif/") || strings.HasPrefix(ln, "main.")
	}
	return false
}

var reRaceFunc = regexp.MustCompile(`(?m)^  ([^\s(]+)\(`)

func splitRaceBlocks(s string) []string {
	var out []string
	parts := strings.Split(s, "WARNING: DATA RACE")
	for _, p := range parts[1:] {
		if i := strings.Index(p, "=================="); i >= 0 {
			p = p[:i]
		}
		out = append(out, "WARNING: DATA RACE"+p)
	}
	return out
}

// raceKey dedupes a report by the first library frame of each of the two
// conflicting accesses (line numbers stripped).
func raceKey(blk string) string {
	secs := regexp.MustCompile(`(?m)^(Read|Write|Previous read|Previous write)[^\n]*\n`).Split(blk, -1)
	var fns []string
	for _, sec := range secs[1:] {
		if i := strings.Index(sec, "\n\n"); i >= 0 {
			sec = sec[:i]
		}
		m := reRaceFunc.FindAllStringSubmatch(sec, -1)
		fn := "?"
		for _, mm := range m {
			if strings.Contains(mm[1], "brocaar/lorawan") {
				fn = mm[1]
				break
			}
		}
		if fn == "?" && len(m) > 0 {
			fn = m[0][1]
		}
		fn = strings.TrimPrefix(fn, "github.com/brocaar/lorawan")
		fns = append(fns, strings.TrimLeft(fn, "/."))
		if len(fns) == 2 {
			break
		}
	}
	sort.Strings(fns)
	return strings.Join(fns, "|")
}
