package mon

import (
	"bytes"
	"encoding/hex"
	"encoding/json"
	"fmt"
	"io"
	"net/http"
	"net/http/httptest"
	"runtime"
	"strings"
	"sync"

	"github.com/brocaar/lorawan"
	"github.com/brocaar/lorawan/backend/joinserver"

	"lwverif/core"
	"lwverif/spec"
)

func init() {
	core.Register(&core.Property{
		ID:   "C16",
		Rule: "the real joinserver http.Handler is driven through httptest recorders with seeded worlds (device population with random root keys / EUIs / JoinNonce incl. 0 and 2^24-1, NS and AS key-encryption keys of 16/24/32 bytes present or absent independently) and requests: join-request and rejoin-request types 0/1/2 with correct and wrong MIC, known and unknown DevEUI, OptNeg both ways, RxDelay 0..15, CFList absent/present (random octets, all sixteen octets zero, unused frequency slots or empty masks at random positions), HomeNSReq, and malformed bodies (truncated JSON, wrong MessageType, bad hex, PHYPayload of another MType, JoinNonce >= 2^24). Every Success answer is handed to an independent spec end-device (harness/spec/device.go) that decrypts the join-accept, verifies its MIC, compares the echoed fields and derives the session keys, which must equal the answer's key envelopes after unwrapping with the harness' RFC 3394 code; result codes and id mirroring are checked for the failure answers. The -race pass sends interleaved requests from many goroutines through one handler and judges each answer against its own request. Distinct = (request kind, OptNeg, KEK configuration, CFList, outcome).",
		Assumptions: []string{
			"session keys: 1.0 NwkSKey/AppSKey from typ|JoinNonce|NetID|DevNonce; 1.1 FNwkSIntKey/SNwkSIntKey/NwkSEncKey from NwkKey and AppSKey from AppKey over typ|JoinNonce|JoinEUI|DevNonce (RJcount for rejoins); JSIntKey/JSEncKey from NwkKey over 0x06/0x05|DevEUI",
			"for a LoRaWAN 1.0 device the single root key is configured as NwkKey (the package follows the 1.1 key naming)",
			"malformed requests must produce an answer without a panic; id mirroring is asserted for answers to well-formed requests only",
		},
		MinEvals: 500,
		Run:      runC16,
		RunRace:  runC16Race,
	})
}

type c16Dev struct {
	spec.Device
	JoinNonce int
	ASLabel   string
}

type c16World struct {
	devs     map[[8]byte]*c16Dev
	list     []*c16Dev
	keks     map[string][]byte
	netID    [3]byte
	emptyKEK bool
	sender   string // how this network server spells its NetID in SenderID (also its KEK label)
	handler  http.Handler
}

func newC16World(r *core.RNG) *c16World {
	w := &c16World{devs: map[[8]byte]*c16Dev{}, keks: map[string][]byte{}}
	r.Fill(w.netID[:])
	if r.Chance(1, 5) {
		w.netID = [][3]byte{{0, 0, 0}, {0, 0, 1}, {0, 0, 0x13}, {0x60, 0, 0}, {0xff, 0xff, 0xff}}[r.Intn(5)] // experimental / well-known / typed NetIDs
	}
	nsLabel := hex.EncodeToString(w.netID[:])
	switch r.Intn(4) { // identifiers are hex text; a peer may write it in upper case or with 0x
	case 0:
		nsLabel = strings.ToUpper(nsLabel)
	case 1:
		nsLabel = "0x" + nsLabel
	}
	w.sender = nsLabel
	w.emptyKEK = r.Bool()
	if r.Bool() {
		w.keks[nsLabel] = r.Bytes([]int{16, 24, 32}[r.Intn(3)])
	}
	for i := 0; i < 6; i++ {
		d := &c16Dev{}
		d.DevEUI, d.JoinEUI, d.NwkKey, d.AppKey = eui(r), eui(r), key16(r), key16(r)
		if i < 2 {
			// a device identity that re-appears in other worlds of this process with new root keys (re-provisioning)
			d.DevEUI = [8]byte{0x70, 0xb3, 0xd5, 0x7e, 0xd0, 0, 0, byte(i)}
		}
		switch r.Intn(5) {
		case 0:
			d.JoinNonce = 0
		case 1:
			d.JoinNonce = 1<<24 - 1
		case 2:
			d.JoinNonce = []int{0x000100, 0x010000, 0x00ffff, 0x0000ff, 1}[r.Intn(5)] // just before / after a byte rollover
		default:
			d.JoinNonce = r.Intn(1 << 24)
		}
		if r.Bool() {
			d.ASLabel = []string{fmt.Sprintf("as-%d", i), fmt.Sprintf("AS %d/key", i), fmt.Sprintf("0x%02x", i), fmt.Sprintf("as-%d", i)}[r.Intn(4)]
			if r.Chance(3, 4) {
				w.keks[d.ASLabel] = r.Bytes([]int{16, 24, 32}[r.Intn(3)])
			}
		}
		for w.devs[d.DevEUI] != nil { // identities are unique within a world (boundary EUIs repeat)
			r.Fill(d.DevEUI[:])
		}
		w.devs[d.DevEUI] = d
		w.list = append(w.list, d)
	}
	h, err := joinserver.NewHandler(joinserver.HandlerConfig{
		GetDeviceKeysByDevEUIFunc: func(e lorawan.EUI64) (joinserver.DeviceKeys, error) {
			d, ok := w.devs[[8]byte(e)]
			if !ok {
				return joinserver.DeviceKeys{}, joinserver.ErrDevEUINotFound
			}
			return joinserver.DeviceKeys{DevEUI: e, NwkKey: lorawan.AES128Key(d.NwkKey), AppKey: lorawan.AES128Key(d.AppKey), JoinNonce: d.JoinNonce}, nil
		},
		GetKEKByLabelFunc: func(label string) ([]byte, error) {
			if k, ok := w.keks[label]; ok {
				return k, nil
			}
			if w.emptyKEK {
				return []byte{}, nil // "no KEK for this label" as an empty, non-nil slice
			}
			return nil, nil
		},
		GetASKEKLabelByDevEUIFunc: func(e lorawan.EUI64) (string, error) {
			if d, ok := w.devs[[8]byte(e)]; ok {
				return d.ASLabel, nil
			}
			return "", nil
		},
		GetHomeNetIDByDevEUIFunc: func(e lorawan.EUI64) (lorawan.NetID, error) {
			if _, ok := w.devs[[8]byte(e)]; ok {
				return lorawan.NetID(w.netID), nil
			}
			return lorawan.NetID{}, joinserver.ErrDevEUINotFound
		},
	})
	if err != nil {
		panic(err)
	}
	w.handler = h
	return w
}

type c16Req struct {
	kind     string // join, rejoin0, rejoin1, rejoin2, homens, malformed-*
	body     []byte
	dev      *c16Dev
	known    bool
	micOK    bool
	nonce    uint16
	devAddr  [4]byte
	dls      byte
	rxDelay  int
	cfList   []byte
	sender   string
	receiver string
	txID     uint32
	reqType  byte
	overflow bool
}

func c16MakeRequest(r *core.RNG, w *c16World, forceValid bool) c16Req {
	q := c16Req{known: true, micOK: true}
	d := w.list[r.Intn(len(w.list))]
	dev := *d
	if !forceValid && r.Chance(1, 8) {
		dev.DevEUI = eui(r) // unknown device
		for w.devs[dev.DevEUI] != nil {
			r.Fill(dev.DevEUI[:])
		}
		q.known = false
	}
	q.dev = &dev
	q.sender = w.sender
	q.receiver = hex.EncodeToString(dev.JoinEUI[:])
	q.txID = r.U32()
	q.nonce = uint16(r.U32Edge())
	r.Fill(q.devAddr[:])
	switch r.Intn(10) {
	case 0:
		q.devAddr = [4]byte{} // 00000000 is an address like any other
	case 1:
		q.devAddr = [4]byte{0xff, 0xff, 0xff, 0xff}
	}
	q.dls = byte(r.Intn(128))
	q.rxDelay = r.Intn(16)
	if r.Bool() {
		q.cfList = r.Bytes(16)
		q.cfList[15] = byte(r.Intn(2))
		if q.cfList[15] == 1 {
			// channel-mask CFList: at most 6 masks, the remaining octets are RFU (sent as 0)
			q.cfList[12], q.cfList[13], q.cfList[14] = 0, 0, 0
		}
		// structured lists (a requested CFList is echoed whatever it holds): unused (all-zero)
		// frequency slots or masks at the front, in the middle, everywhere
		switch r.Intn(6) {
		case 0:
			for i := 0; i < 15; i++ {
				q.cfList[i] = 0
			}
		case 1:
			n := 3
			if q.cfList[15] == 1 {
				n = 2
			}
			for k := 0; k < 15/n; k++ {
				if r.Bool() {
					for i := 0; i < n; i++ {
						q.cfList[k*n+i] = 0
					}
				}
			}
		}
	}
	kinds := []string{"join", "join", "join", "rejoin0", "rejoin1", "rejoin2", "homens"}
	q.kind = kinds[r.Intn(len(kinds))]
	var phy []byte
	msgType := "JoinReq"
	switch q.kind {
	case "join":
		q.reqType = 0xff
		if r.Bool() {
			q.dls |= 0x80 // OptNeg
		}
		phy = dev.JoinRequest(q.nonce)
	case "rejoin0", "rejoin1", "rejoin2":
		q.reqType = q.kind[6] - '0'
		q.dls |= 0x80 // rejoin exists in 1.1 only
		phy = dev.RejoinRequest(q.reqType, w.netID, q.nonce, key16(r))
		msgType = "RejoinReq"
	case "homens":
		msgType = "HomeNSReq"
	}
	if !forceValid && q.kind == "join" && r.Chance(1, 8) {
		phy[len(phy)-1-r.Intn(4)] ^= byte(1 << uint(r.Intn(8)))
		q.micOK = false
	}
	m := map[string]interface{}{
		"ProtocolVersion": "1.0", "SenderID": q.sender, "ReceiverID": q.receiver, "TransactionID": q.txID, "MessageType": msgType,
		"DevEUI": hex.EncodeToString(dev.DevEUI[:]),
	}
	if q.kind != "homens" {
		// the property ties the derivation to OptNeg alone; the version string a network server reports varies
		if v := []string{"1.0.3", "1.0.0", "1.0.1", "1.0.2", "1.0.4", "1.1.0", "1.1", "1.0", "", "-"}[r.Intn(10)]; v != "-" {
			m["MACVersion"] = v
		}
		m["PHYPayload"] = hex.EncodeToString(phy)
		m["DevAddr"] = hex.EncodeToString(q.devAddr[:])
		m["DLSettings"] = hex.EncodeToString([]byte{q.dls})
		m["RxDelay"] = q.rxDelay
		if q.cfList != nil {
			m["CFList"] = hex.EncodeToString(q.cfList)
		}
	}
	// malformed variants
	if !forceValid && q.kind != "homens" && r.Chance(1, 7) {
		switch r.Intn(7) {
		case 0:
			q.kind = "malformed-truncated"
			b, _ := json.Marshal(m)
			q.body = b[:r.Intn(len(b))]
			return q
		case 1:
			q.kind = "malformed-messagetype"
			m["MessageType"] = []string{"PRStartReq", "", "JoinAns", "xyz"}[r.Intn(4)]
		case 2:
			q.kind = "malformed-hex"
			m["PHYPayload"] = "zz" + hex.EncodeToString(phy)
		case 3:
			q.kind = "malformed-other-mtype"
			dd := genDataCase(r, anyData())
			m["PHYPayload"] = hex.EncodeToString(append(dd.Spec.Msg(), 1, 2, 3, 4))
		case 4:
			q.kind = "malformed-types"
			m["RxDelay"] = "seven"
			m["TransactionID"] = -5
		case 5:
			q.kind = "malformed-ids"
			m["SenderID"] = []string{"", "0102", "not-hex", "01020304"}[r.Intn(4)]
			m["ReceiverID"] = []string{"", "0102", "not-hex"}[r.Intn(3)]
		case 6:
			q.kind = "malformed-cflist"
			m["CFList"] = hex.EncodeToString(r.Bytes(1 + r.Intn(30)))
			if l := len(m["CFList"].(string)); l == 32 {
				m["CFList"] = m["CFList"].(string)[:30]
			}
		}
	}
	q.body, _ = json.Marshal(m)
	return q
}

type c16Ans struct {
	ProtocolVersion, SenderID, ReceiverID, MessageType     string
	TransactionID                                          uint32
	Result                                                 struct{ ResultCode, Description string }
	ResultCode                                             string // bare Result object of returnError
	PHYPayload                                             string
	HNetID                                                 string
	SNwkSIntKey, FNwkSIntKey, NwkSEncKey, NwkSKey, AppSKey *struct{ KEKLabel, AESKey string }
}

// c16Judge returns violations as (key, detail) pairs.
func c16Judge(w *c16World, q c16Req, status int, body []byte) (out [][2]string, shape string) {
	bad := func(key, f string, a ...interface{}) {
		out = append(out, [2]string{key, fmt.Sprintf(f, a...) + fmt.Sprintf(" | request %s | answer (%d) %s", short(string(q.body), 500), status, short(string(body), 600))})
	}
	var a c16Ans
	if err := json.Unmarshal(body, &a); err != nil || len(body) == 0 {
		bad("C16|no-answer|"+q.kind, "the handler produced no parsable answer: %v", err)
		return out, q.kind + "/unparsable"
	}
	code := a.Result.ResultCode
	if code == "" {
		code = a.ResultCode
	}
	shape = q.kind + "/" + code
	if strings.HasPrefix(q.kind, "malformed") {
		if code == "" {
			bad("C16|malformed-without-result|"+q.kind, "answer carries no result code")
		}
		if code == "Success" && q.kind != "malformed-cflist" && q.kind != "malformed-ids" {
			bad("C16|malformed-accepted|"+q.kind, "malformed request answered with Success")
		}
		return out, shape
	}
	// id mirroring for every answer to a well-formed request
	wantType := map[string]string{"join": "JoinAns", "rejoin0": "RejoinAns", "rejoin1": "RejoinAns", "rejoin2": "RejoinAns", "homens": "HomeNSAns"}[q.kind]
	if a.SenderID != q.receiver || a.ReceiverID != q.sender || a.TransactionID != q.txID || a.MessageType != wantType || a.ProtocolVersion != "1.0" {
		bad("C16|ids-not-mirrored|"+q.kind, "answer ids sender=%q receiver=%q tx=%d type=%q; request sender=%q receiver=%q tx=%d", a.SenderID, a.ReceiverID, a.TransactionID, a.MessageType, q.sender, q.receiver, q.txID)
	}
	if !q.known {
		if code != "UnknownDevEUI" {
			bad("C16|unknown-deveui|"+q.kind, "unknown DevEUI answered with %q", code)
		}
		return out, shape
	}
	if q.kind == "homens" {
		if code != "Success" || a.HNetID != hex.EncodeToString(w.netID[:]) {
			bad("C16|homens", "HomeNSAns %q HNetID %q, want Success %x", code, a.HNetID, w.netID)
		}
		return out, shape
	}
	if !q.micOK {
		if code != "MICFailed" {
			bad("C16|wrong-mic|"+q.kind, "join-request with a wrong MIC answered with %q", code)
		}
		return out, shape
	}
	if code != "Success" {
		bad("C16|valid-request-refused|"+q.kind, "valid request answered with %q (%s)", code, a.Result.Description)
		return out, shape
	}
	phy, err := hex.DecodeString(a.PHYPayload)
	if err != nil {
		bad("C16|phypayload-hex|"+q.kind, "%v", err)
		return out, shape
	}
	acc, err := q.dev.ProcessJoinAccept(phy, q.reqType, q.nonce)
	if err != nil {
		bad(fmt.Sprintf("C16|device-rejects-join-accept|%s|optneg=%v", q.kind, q.dls&0x80 != 0), "the requesting device cannot use the join-accept: %v", err)
		return out, shape
	}
	ja := acc.JA
	if int(ja.JoinNonce) != q.dev.JoinNonce || ja.NetID != w.netID || ja.DevAddr != q.devAddr || ja.DLSettings != q.dls || int(ja.RXDelay) != q.rxDelay || !bytes.Equal(ja.CFList, q.cfList) {
		bad("C16|join-accept-fields|"+q.kind, "join-accept %+v does not echo JoinNonce %d NetID %x DevAddr %x DLSettings %#x RxDelay %d CFList %x", ja, q.dev.JoinNonce, w.netID, q.devAddr, q.dls, q.rxDelay, q.cfList)
	}
	// key envelopes
	nsKEK := w.keks[q.sender]
	asKEK := w.keks[q.dev.ASLabel]
	unwrap := func(name string, env *struct{ KEKLabel, AESKey string }, label string, kek []byte) ([16]byte, bool) {
		var k [16]byte
		if env == nil {
			bad("C16|envelope-missing|"+q.kind+"|"+name, "%s is missing in a Success answer", name)
			return k, false
		}
		raw, err := hex.DecodeString(env.AESKey)
		if err != nil {
			bad("C16|envelope-hex|"+name, "%v", err)
			return k, false
		}
		if label == "" || len(kek) == 0 {
			if env.KEKLabel != "" || len(raw) != 16 {
				bad("C16|envelope-not-clear|"+q.kind+"|"+name, "no KEK configured but envelope is %+v", env)
				return k, false
			}
			copy(k[:], raw)
			return k, true
		}
		if env.KEKLabel != label {
			bad("C16|envelope-label|"+q.kind+"|"+name, "KEKLabel %q, want %q", env.KEKLabel, label)
		}
		pt, ok := spec.KeyUnwrap(kek, raw)
		if !ok || len(pt) != 16 {
			bad("C16|envelope-unwrap|"+q.kind+"|"+name, "%s does not unwrap with the configured KEK (label %q, %d-byte KEK)", name, label, len(kek))
			return k, false
		}
		copy(k[:], pt)
		return k, true
	}
	type kv struct {
		name  string
		env   *struct{ KEKLabel, AESKey string }
		want  [16]byte
		label string
		kek   []byte
	}
	var ks []kv
	if acc.OptNeg {
		ks = []kv{{"FNwkSIntKey", a.FNwkSIntKey, acc.FNwkSIntKey, q.sender, nsKEK}, {"SNwkSIntKey", a.SNwkSIntKey, acc.SNwkSIntKey, q.sender, nsKEK},
			{"NwkSEncKey", a.NwkSEncKey, acc.NwkSEncKey, q.sender, nsKEK}, {"AppSKey", a.AppSKey, acc.App, q.dev.ASLabel, asKEK}}
		if a.NwkSKey != nil {
			bad("C16|unexpected-envelope|"+q.kind+"|NwkSKey", "1.1 answer carries a NwkSKey")
		}
	} else {
		ks = []kv{{"NwkSKey", a.NwkSKey, acc.NwkSKey, q.sender, nsKEK}, {"AppSKey", a.AppSKey, acc.App, q.dev.ASLabel, asKEK}}
	}
	mismatch := []string{}
	all := []string{}
	style10 := true // every key of the answer (also one that happens to coincide with the right value) is the 1.0 derivation
	for _, k := range ks {
		got, ok := unwrap(k.name, k.env, k.label, k.kek)
		if !ok {
			continue
		}
		all = append(all, k.name)
		typ := map[string]byte{"FNwkSIntKey": 1, "NwkSKey": 1, "AppSKey": 2, "SNwkSIntKey": 3, "NwkSEncKey": 4}[k.name]
		if got != spec.SessionKey10(q.dev.NwkKey, typ, ja.JoinNonce, ja.NetID, q.nonce) {
			style10 = false
		}
		if got != k.want {
			mismatch = append(mismatch, k.name)
		}
	}
	if len(mismatch) > 0 {
		how := "other"
		if style10 && acc.OptNeg {
			// one defect, one key: with an all-zero NetID and JoinEUI some of the 1.0-derived keys coincide
			// with the 1.1 ones, which must not make it look like a different violation
			how = "1.0-style-derivation"
			mismatch = all
		}
		bad(fmt.Sprintf("C16|session-keys|%s|optneg=%v|%s|%s", q.kind, acc.OptNeg, strings.Join(mismatch, "+"), how), "session keys %v in the answer differ from the keys the device derives (library values are the LoRaWAN 1.0 derivation over NetID: %v)", mismatch, style10)
	}
	kekCfg := fmt.Sprintf("ns=%d/as=%d", len(nsKEK), len(asKEK))
	return out, shape + "/" + kekCfg + fmt.Sprintf("/cf=%v", q.cfList != nil)
}

func c16Serve(w *c16World, q c16Req) (status int, body []byte, panicMsg string) {
	rec := httptest.NewRecorder()
	var rd io.Reader = bytes.NewReader(q.body)
	if q.txID%3 == 1 {
		// a body whose length is not known up-front (chunked transfer): ContentLength is -1
		rd = struct{ io.Reader }{bytes.NewReader(q.body)}
	}
	req, _ := http.NewRequest("POST", "/", rd)
	p, msg := core.Guard(func() { w.handler.ServeHTTP(rec, req) })
	if p {
		return 0, nil, msg
	}
	return rec.Code, rec.Body.Bytes(), ""
}

func runC16(c *core.Ctx) {
	n := c.N(6000, 800000)
	const perWorld = 50
	for wi := int64(0); wi < n/perWorld; wi++ {
		if !c.Mine("world", wi) {
			continue
		}
		r := c.RNG("world", wi)
		w := newC16World(r)
		var prev c16Req
		for k := 0; k < perWorld; k++ {
			q := c16MakeRequest(r, w, false)
			if k > 0 && k%7 == 3 && prev.body != nil && !strings.HasPrefix(prev.kind, "malformed") {
				// the same frame again in a new transaction (a second network server forwarding it, a retry):
				// the join-server keeps no state, so the verdict is the same as the first time
				q = prev
				q.txID = prev.txID + 1 + uint32(r.Intn(1000))
				var m map[string]interface{}
				if json.Unmarshal(prev.body, &m) == nil {
					m["TransactionID"] = q.txID
					q.body, _ = json.Marshal(m)
				}
			}
			prev = q
			status, body, pm := c16Serve(w, q)
			c.Eval(1)
			if pm != "" {
				c.Violate("C16|handler-panic|"+q.kind, "%s | request %s", short(pm, 300), short(string(q.body), 400))
				continue
			}
			vs, shape := c16Judge(w, q, status, body)
			for _, v := range vs {
				c.Violate(v[0], "%s", v[1])
			}
			c.Shape(shape)
			c.Count("requests."+strings.SplitN(q.kind, "-", 2)[0], 1)
			if c.WantSample("exchange") && q.kind == "join" && q.micOK && q.known {
				c.Sample("exchange", map[string]interface{}{"request": string(q.body), "answer": string(body)})
			}
		}
	}
}

func runC16Race(c *core.Ctx) {
	rounds := c.N(6, 300)
	for h := int64(0); h < rounds; h++ {
		if !c.Mine("race-handler", h) {
			continue
		}
		r := c.RNG("race-handler", h)
		w := newC16World(r)
		goroutines := 32
		per := int(c.N(60, 200))
		// pre-generate the requests deterministically
		reqs := make([][]c16Req, goroutines)
		for g := range reqs {
			for k := 0; k < per; k++ {
				reqs[g] = append(reqs[g], c16MakeRequest(r, w, k%4 != 0))
			}
		}
		var mu sync.Mutex
		var viol [][2]string
		var wg sync.WaitGroup
		start := make(chan struct{})
		var inflight, maxInflight, overlaps int64
		for g := 0; g < goroutines; g++ {
			wg.Add(1)
			go func(g int) {
				defer wg.Done()
				<-start
				for k, q := range reqs[g] {
					mu.Lock()
					inflight++
					if inflight > 1 {
						overlaps++
					}
					if inflight > maxInflight {
						maxInflight = inflight
					}
					mu.Unlock()
					status, body, pm := c16Serve(w, q)
					mu.Lock()
					inflight--
					mu.Unlock()
					var vs [][2]string
					if pm != "" {
						vs = append(vs, [2]string{"C16|handler-panic|" + q.kind, short(pm, 300)})
					} else {
						vs, _ = c16Judge(w, q, status, body)
					}
					if len(vs) > 0 {
						mu.Lock()
						for _, v := range vs {
							viol = append(viol, [2]string{v[0], "(concurrent pass) " + v[1]})
						}
						mu.Unlock()
					}
					if k%3 == 0 {
						runtime.Gosched()
					}
				}
			}(g)
		}
		close(start)
		wg.Wait()
		total := int64(goroutines * per)
		c.Eval(total)
		c.Count("race.ops", total)
		c.Count("race.overlaps", overlaps)
		c.Count("race.histories", 1)
		if maxInflight > c.Res().Counters["max.requests-in-flight"] {
			c.Res().Counters["max.requests-in-flight"] = maxInflight
		}
		for _, v := range viol {
			c.Violate(v[0], "%s", v[1])
		}
		c.Shape("race-round", h, maxInflight)
		if c.WantSample("race-handler") {
			c.Sample("race-handler", map[string]interface{}{"goroutines": goroutines, "requests": total, "max_in_flight": maxInflight, "gomaxprocs": runtime.GOMAXPROCS(0)})
		}
	}
}
