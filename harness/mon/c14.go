package mon

import (
	"fmt"
	"sort"

	"github.com/brocaar/lorawan"
	"github.com/brocaar/lorawan/band"

	"lwverif/core"
	"lwverif/spec"
)

func init() {
	core.Register(&core.Property{
		ID:   "C14",
		Rule: "for every band configuration: seeded histories of AddChannel (where supported, <= 24 extra channels) / DisableUplinkChannelIndex / EnableUplinkChannelIndex on the network side, then device channel sets handed over in shuffled order: all 2^n subsets when the plan has <= 12 channels (<= 16 in the thorough tier), seeded random and structured subsets otherwise (single sub-band, one 16-block, only 500 kHz channels, all-but-one, empty, full, alternating, equal to the network set). Oracle: an independent device model of LinkADRReq channel-mask semantics applies the generated payloads; the result must equal network-enabled AND (standard OR custom-already-active-on-device); the library's own apply function must agree; every payload must encode; at most ceil(channels/16)+1 payloads; none when the device already matches. Distinct = (band, plan size, history shape, device-set class, number of payloads, planner strategy).",
		Assumptions: []string{
			"device model in harness/spec/linkadr.go: ChMaskCntl 0..n selects a 16-channel block (bits beyond the plan must be 0); US915/AU915: 6 = all 125 kHz on, 7 = all 125 kHz off, both with ChMask bits 0..7 for channels 64..71",
			"device channel sets contain only indices that exist in the plan",
		},
		MinEvals: 1000,
		Run:      runC14,
	})
}

func c14Check(c *core.Ctx, cfg bandCfg, b band.Band, custom map[int]bool, netEnabled map[int]bool, n int, dev []int, class string, hist string) {
	fixed72 := cfg.Name == "US915" || cfg.Name == "AU915"
	var pls []lorawan.LinkADRReqPayload
	c.Eval(1)
	if p, msg := core.Guard(func() { pls = b.GetLinkADRReqPayloadsForEnabledUplinkChannelIndices(append([]int{}, dev...)) }); p {
		c.Violate("C14|"+cfg.Name+"|planner-panic", "device %v after %s: %s", dev, hist, short(msg, 300))
		return
	}
	if len(pls) > 0 && len(dev)%4 == 1 {
		// the plan handed out is the caller's (the network server fills in DataRate / TXPower / NbTrans):
		// overwriting one result must not change another, nor the next plan
		keep := fmtPayloads(pls)
		p2 := b.GetLinkADRReqPayloadsForEnabledUplinkChannelIndices(append([]int{}, dev...))
		core.Scribble(&p2)
		p3 := b.GetLinkADRReqPayloadsForEnabledUplinkChannelIndices(append([]int{}, dev...))
		if fmtPayloads(pls) != keep || fmtPayloads(p3) != keep {
			c.Violate("C14|"+cfg.Name+"|plan-shared", "overwriting one returned plan changed another: first %s, first now %s, next %s", keep, fmtPayloads(pls), fmtPayloads(p3))
		}
	}
	devSet := map[int]bool{}
	for _, d := range dev {
		devSet[d] = true
	}
	// a device may still have channels enabled that the network's plan no longer has ("stale" indices >= n)
	ns, stale := n, false
	for _, d := range dev {
		if d >= ns {
			ns, stale = (d/16+1)*16, true
		}
	}
	state := make([]bool, ns)
	for i := range state {
		state[i] = devSet[i]
	}
	var cmds []spec.LinkADR
	for _, pl := range pls {
		cmds = append(cmds, spec.LinkADR{ChMaskCntl: int(pl.Redundancy.ChMaskCntl), ChMask: pl.ChMask})
		if _, err := pl.MarshalBinary(); err != nil {
			c.Violate("C14|"+cfg.Name+"|payload-not-encodable", "payload %+v: %v", pl, err)
		}
	}
	ctx := func() string {
		return fmt.Sprintf("band %s, %d channels, history [%s], device (as given) %v -> payloads %s", cfg, n, hist, dev, fmtPayloads(pls))
	}
	// expected: network-enabled AND (standard OR custom active on device)
	var want []int
	for i := 0; i < n; i++ {
		if netEnabled[i] && (!custom[i] || devSet[i]) {
			want = append(want, i)
		}
	}
	got, ok := spec.ApplyLinkADR(state, cmds, fixed72)
	if !ok {
		c.Violate("C14|"+cfg.Name+"|device-rejects", "a device would reject the generated commands | %s", ctx())
		return
	}
	// indices the plan does not have are not among "the network's enabled channels" and the device sets the
	// property speaks of are sets of the plan's channels: whether a stale index ends up switched off (the
	// library's planner does that as far as the last block reaches) or is left alone is not judged
	var gotIdx []int
	for i, e := range got {
		if e && i < n {
			gotIdx = append(gotIdx, i)
		}
	}
	if fmt.Sprint(gotIdx) != fmt.Sprint(want) {
		c.Violate("C14|"+cfg.Name+"|wrong-channel-set", "device ends with %v, expected %v | %s", gotIdx, want, ctx())
	}
	// the library's own apply agrees
	var lib []int
	var err error
	c.Eval(1)
	if p, msg := core.Guard(func() { lib, err = b.GetEnabledUplinkChannelIndicesForLinkADRReqPayloads(append([]int{}, dev...), pls) }); p || err != nil {
		c.Violate("C14|"+cfg.Name+"|apply-failed", "GetEnabledUplinkChannelIndicesForLinkADRReqPayloads: %v %s | %s", err, short(msg, 200), ctx())
	} else {
		sort.Ints(lib)
		for len(lib) > 0 && lib[len(lib)-1] >= n {
			lib = lib[:len(lib)-1]
		}
		if fmt.Sprint(lib) != fmt.Sprint(want) {
			c.Violate("C14|"+cfg.Name+"|apply-differs", "library apply gives %v, expected %v | %s", lib, want, ctx())
		}
	}
	if len(pls) > (n+15)/16+1 && !stale {
		c.Violate("C14|"+cfg.Name+"|too-many-payloads", "%d payloads for %d channels | %s", len(pls), n, ctx())
	}
	same := len(devSet) == len(netEnabled)
	for i := range netEnabled {
		if !devSet[i] {
			same = false
		}
	}
	if same && len(pls) != 0 {
		c.Violate("C14|"+cfg.Name+"|payloads-when-matching", "device already matches the network but %d payloads were generated | %s", len(pls), ctx())
	}
	strategy := "none"
	if len(pls) > 0 {
		strategy = "blocks"
		if pls[0].Redundancy.ChMaskCntl >= 6 {
			strategy = "all-off-then-blocks"
		}
	}
	c.Count("strategy."+strategy, 1)
	c.Shape(cfg.Name, n, class, len(pls), strategy)
}

func fmtPayloads(pls []lorawan.LinkADRReqPayload) string {
	s := ""
	for _, p := range pls {
		var m uint16
		for i, b := range p.ChMask {
			if b {
				m |= 1 << uint(i)
			}
		}
		s += fmt.Sprintf("[cntl=%d mask=%04x]", p.Redundancy.ChMaskCntl, m)
	}
	return s
}

func runC14(c *core.Ctx) {
	cfgs := allBandCfgs()
	hists := c.N(40, 6000)
	for ci, cfg := range cfgs {
		if cfg.Dwell && cfg.Name != "AS923" && cfg.Name != "AU915" {
			continue // dwell-time does not influence channel planning; keep two representatives
		}
		for h := int64(0); h < hists; h++ {
			idx := int64(ci)<<24 | h
			if !c.Mine("history", idx) {
				continue
			}
			r := c.RNG("history", idx)
			b, err := cfg.New()
			if err != nil {
				continue
			}
			reg := spec.Regions[cfg.Name]
			n := len(reg.Uplink)
			custom := map[int]bool{}
			enabled := map[int]bool{}
			for i := 0; i < n; i++ {
				enabled[i] = true
			}
			var hist []string
			steps := r.Intn(14)
			if h%5 == 0 {
				steps = 0
			}
			extra := 0
			if reg.ExtraChannels && h%3 == 2 {
				// plans that reach into the second and third 16-channel block
				for k := 10 + r.Intn(14); k > 0; k-- {
					f := reg.Uplink[0].Freq + uint32(1+r.Intn(60))*200000
					if b.AddChannel(f, 0, 5) == nil && len(b.GetUplinkChannelIndices()) > n { // (an AddChannel that folds an exact duplicate into the existing entry adds nothing)
						custom[n] = true
						enabled[n] = true
						n++
						extra++
					}
				}
				hist = append(hist, fmt.Sprintf("add x%d", extra))
			}
			for s := 0; s < steps; s++ {
				switch r.Intn(4) {
				case 0, 1:
					if reg.ExtraChannels && extra < 24 {
						f := reg.Uplink[0].Freq + uint32(1+r.Intn(60))*200000
						if b.AddChannel(f, 0, 5) == nil && len(b.GetUplinkChannelIndices()) > n { // (an AddChannel that folds an exact duplicate into the existing entry adds nothing)
							custom[n] = true
							enabled[n] = true
							n++
							extra++
							hist = append(hist, fmt.Sprintf("add(%d)", f))
						}
					} else {
						i := r.Intn(n)
						b.DisableUplinkChannelIndex(i)
						delete(enabled, i)
						hist = append(hist, fmt.Sprintf("dis(%d)", i))
					}
				case 2:
					i := r.Intn(n)
					if n > 16 && r.Bool() { // structured: a whole sub-band or block
						lo := (i / 8) * 8
						for k := lo; k < lo+8 && k < n; k++ {
							b.DisableUplinkChannelIndex(k)
							delete(enabled, k)
						}
						hist = append(hist, fmt.Sprintf("dis(%d..%d)", lo, lo+7))
					} else {
						b.DisableUplinkChannelIndex(i)
						delete(enabled, i)
						hist = append(hist, fmt.Sprintf("dis(%d)", i))
					}
				default:
					i := r.Intn(n)
					b.EnableUplinkChannelIndex(i)
					enabled[i] = true
					hist = append(hist, fmt.Sprintf("en(%d)", i))
				}
				// a network server queries and plans while its channel plan evolves: interleave
				// observations with the mutations (stale caches show up only this way)
				if r.Chance(1, 3) {
					if got := b.GetEnabledUplinkChannelIndices(); len(got) != len(enabled) {
						c.Violate("C14|"+cfg.Name+"|enabled-set", "mid-history: band reports %v enabled after %v, model has %d", got, hist, len(enabled))
					}
					var dev []int
					for i := 0; i < n; i++ {
						if r.Bool() {
							dev = append(dev, i)
						}
					}
					c14Check(c, cfg, b, custom, enabled, n, dev, "mid-history", fmt.Sprint(hist))
				}
			}
			if n > 16 && h%4 == 1 { // typical deployment: one sub-band only
				sb := r.Intn(8)
				for k := 0; k < n; k++ {
					on := k/8 == sb || (k >= 64 && k-64 == sb)
					if on {
						b.EnableUplinkChannelIndex(k)
						enabled[k] = true
					} else {
						b.DisableUplinkChannelIndex(k)
						delete(enabled, k)
					}
				}
				hist = append(hist, fmt.Sprintf("only-subband(%d)", sb))
			}
			if n > 16 && (h%4 == 2 || h%8 == 3) { // whole 16-channel blocks (or 8-channel sub-bands) either fully on or fully off
				w := 16
				if h%8 == 3 {
					w = 8
				}
				mask := r.Intn(1 << uint((n+w-1)/w))
				wideMask, useWide := r.Intn(256), r.Bool()
				for k := 0; k < n; k++ {
					on := mask>>uint(k/w)&1 == 1
					if k >= 64 && n == 72 && useWide {
						on = wideMask>>uint(k-64)&1 == 1
					}
					if on {
						b.EnableUplinkChannelIndex(k)
						enabled[k] = true
					} else {
						b.DisableUplinkChannelIndex(k)
						delete(enabled, k)
					}
				}
				hist = append(hist, fmt.Sprintf("whole-blocks(width=%d,mask=%#x)", w, mask))
			}
			// cross-check the harness' view of the network with the band
			if got := b.GetEnabledUplinkChannelIndices(); len(got) != len(enabled) {
				c.Violate("C14|"+cfg.Name+"|enabled-set", "band reports %v enabled after [%v], harness model has %d", got, hist, len(enabled))
				continue
			}
			hs := fmt.Sprint(hist)
			shuffle := func(set []int) []int {
				p := r.Perm(len(set))
				out := make([]int, len(set))
				for i, j := range p {
					out[i] = set[j]
				}
				// now and then the same channel is listed twice (still the same set)
				if len(out) > 0 && r.Chance(1, 6) {
					out = append(out, out[r.Intn(len(out))])
				}
				return out
			}
			limit := 12
			if c.Thorough() {
				limit = 16
			}
			if n <= limit {
				for m := 0; m < 1<<uint(n); m++ {
					var dev []int
					for i := 0; i < n; i++ {
						if m>>uint(i)&1 == 1 {
							dev = append(dev, i)
						}
					}
					c14Check(c, cfg, b, custom, enabled, n, shuffle(dev), "all-subsets", hs)
				}
				c.Count("plans.all-subsets-enumerated", 1)
				continue
			}
			var netList []int
			for i := 0; i < n; i++ {
				if enabled[i] {
					netList = append(netList, i)
				}
			}
			patterns := map[string][]int{"empty": nil, "equal-to-network": netList}
			var full, alt, blk, sub, wide []int
			sbb := r.Intn(8)
			blkN := r.Intn((n + 15) / 16)
			for i := 0; i < n; i++ {
				full = append(full, i)
				if i%2 == 0 {
					alt = append(alt, i)
				}
				if i/16 == blkN {
					blk = append(blk, i)
				}
				if i/8 == sbb || (i >= 64 && i-64 == sbb) {
					sub = append(sub, i)
				}
				if i >= 64 {
					wide = append(wide, i)
				}
			}
			patterns["full"], patterns["alternating"], patterns["one-block"], patterns["one-subband"], patterns["only-500khz"] = full, alt, blk, sub, wide
			if reg.ExtraChannels {
				// channels the plan does not have (any more) are still switched on in the device
				st := append([]int{}, netList...)
				for k := 1 + r.Intn(3); k > 0; k-- {
					st = append(st, n+r.Intn(20))
				}
				patterns["stale-indices"] = st
			}
			if len(netList) > 0 {
				k := r.Intn(len(netList))
				patterns["network-minus-one"] = append(append([]int{}, netList[:k]...), netList[k+1:]...)
				patterns["network-plus-one"] = append(append([]int{}, netList...), r.Intn(n))
			}
			names := make([]string, 0, len(patterns))
			for k := range patterns {
				names = append(names, k)
			}
			sort.Strings(names)
			for _, name := range names {
				set := map[int]bool{}
				var dev []int
				for _, i := range patterns[name] {
					if !set[i] {
						set[i] = true
						dev = append(dev, i)
					}
				}
				c14Check(c, cfg, b, custom, enabled, n, shuffle(dev), name, hs)
			}
			for k := int64(0); k < c.N(60, 300); k++ {
				var dev []int
				dens := r.Intn(5)
				for i := 0; i < n; i++ {
					if r.Intn(4) < dens {
						dev = append(dev, i)
					}
				}
				c14Check(c, cfg, b, custom, enabled, n, shuffle(dev), "random", hs)
			}
			if c.WantSample("history") && len(hist) > 2 {
				c.Sample("history", map[string]interface{}{"band": cfg.String(), "network_history": hist, "channels": n})
			}
		}
	}
}
