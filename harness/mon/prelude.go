package mon

import (
	"encoding/json"
	"time"

	"github.com/brocaar/lorawan"
	"github.com/brocaar/lorawan/airtime"
	"github.com/brocaar/lorawan/applayer/clocksync"
	"github.com/brocaar/lorawan/applayer/firmwaremanagement"
	"github.com/brocaar/lorawan/applayer/fragmentation"
	"github.com/brocaar/lorawan/applayer/multicastsetup"
	"github.com/brocaar/lorawan/backend"
	"github.com/brocaar/lorawan/band"
	"github.com/brocaar/lorawan/gps"

	"lwverif/core"
)

// A worker whose batch number is 3 mod 4 makes these calls, rotated by its batch number, before
// its monitors start; results are ignored (the monitors judge what follows).
func init() {
	core.Prelude = func(batch int) {
		steps := []func(){
			func() { gps.NewTimeFromTimeSinceGPSEpoch(1167264018 * time.Second) },
			func() {
				gt := gps.Time(time.Date(2015, 7, 1, 0, 0, 0, 0, time.UTC))
				gt.TimeSinceGPSEpoch()
			},
			func() {
				for _, n := range []band.Name{band.AS923, band.US915, band.ISM2400, band.EU868} {
					if b, err := band.GetConfig(n, batch%8 == 3, lorawan.DwellTime400ms); err == nil {
						b.GetRX1DataRateIndex(0, 6)
						b.GetMaxPayloadSizeForDataRateIndex("", "", 0)
						b.GetPingSlotFrequency(lorawan.DevAddr{1, 2, 3, 4}, 200*time.Second)
					}
				}
			},
			func() {
				var p lorawan.PHYPayload
				if p.UnmarshalBinary([]byte{0x60, 4, 3, 2, 1, 0x05, 1, 0, 0x03, 0x51, 0xff, 0x00, 0x01, 9, 9, 9, 9}) == nil {
					p.DecodeFOptsToMACCommands()
					p.ValidateDownlinkDataMIC(lorawan.LoRaWAN1_1, 7, lorawan.AES128Key{1})
				}
			},
			func() {
				var c1 clocksync.Commands
				c1.UnmarshalBinary(false, []byte{0x00, 0x02, 0x05})
				var c2 multicastsetup.Commands
				c2.UnmarshalBinary(true, []byte{0x04, 0x04})
				var c3 fragmentation.Commands
				c3.UnmarshalBinary(false, []byte{0x03, 0x01})
				var c4 firmwaremanagement.Commands
				c4.UnmarshalBinary(false, []byte{0x01})
				multicastsetup.GetMcKEKey(lorawan.AES128Key{})
			},
			func() {
				var pl backend.JoinReqPayload
				json.Unmarshal([]byte(`{"ProtocolVersion":"1.0","DLSettings":"80","RxDelay":1,"DevAddr":"01020304"}`), &pl)
				backend.NewKeyEnvelope("x", make([]byte, 16), lorawan.AES128Key{2})
				var f backend.Frequency
				json.Unmarshal([]byte("2403.0002"), &f)
			},
			func() {
				airtime.CalculateLoRaAirtime(0, 12, 1625, 8, airtime.CodingRate45, false, true)
				lorawan.GetTXParamSetupEIRPIndex(36)
			},
			func() {
				lorawan.GetMACPayloadAndSize(false, lorawan.CID(0x80))
				lorawan.GetMACPayloadAndSize(true, lorawan.LinkCheckReq)
				fragmentation.Encode(make([]byte, 8), 2, 3)
			},
		}
		for i := range steps {
			core.Guard(steps[(i+batch/4)%len(steps)])
		}
	}
}
