package mon

import (
	"bytes"
	"fmt"
	"runtime"
	"sort"
	"sync"
	"time"

	"github.com/brocaar/lorawan"

	"lwverif/core"
	"lwverif/spec"
)

func init() {
	core.Register(&core.Property{
		ID:   "C04",
		Rule: "join-request, rejoin-request type 0/1/2 and join-accept (12 and 28 bytes; CFList absent / channel list / channel mask; OptNeg both ways; RXDelay 0..15; JoinNonce < 2^24 incl. boundaries) with random asymmetric EUIs/nonces and random keys. Set*JoinMIC is compared with the harness' own CMAC over the spec model's own little-endian serialisation; Validate*JoinMIC must agree exactly with the model on single-field perturbations (JoinReqType/JoinEUI/DevNonce matter iff OptNeg); EncryptJoinAcceptPayload output is compared byte for byte with AES-ECB-decrypt(payload|MIC) and must be recovered by the device-side AES-encrypt; decrypting with a wrong key must yield exactly what the model's AES yields. Distinct = (message kind, OptNeg, CFList kind, perturbation class).",
		Assumptions: []string{
			"crypto/aes trusted; CMAC is the harness' own RFC 4493 implementation",
			"LoRaWAN 1.1 §6.2: join-accept MIC with OptNeg covers JoinReqType|JoinEUI|DevNonce|MHDR|payload; the join-accept is encrypted with aes128_decrypt in ECB mode",
		},
		MinEvals: 1000,
		Run:      runC04,
	})
}

// specJoinAccept builds the spec model's view of a library join-accept value
// using the harness' own serialisation rules.
func specJoinAccept(ja *lorawan.JoinAcceptPayload) spec.JoinAccept {
	out := spec.JoinAccept{JoinNonce: uint32(ja.JoinNonce), NetID: ja.HomeNetID, DevAddr: ja.DevAddr, RXDelay: ja.RXDelay}
	out.DLSettings = ja.DLSettings.RX2DataRate&0x0f | (ja.DLSettings.RX1DROffset&7)<<4
	if ja.DLSettings.OptNeg {
		out.DLSettings |= 0x80
	}
	if ja.CFList != nil {
		cf := make([]byte, 16)
		switch v := ja.CFList.Payload.(type) {
		case *lorawan.CFListChannelPayload:
			for i, f := range v.Channels {
				w := f / 100
				cf[i*3], cf[i*3+1], cf[i*3+2] = byte(w), byte(w>>8), byte(w>>16)
			}
			cf[15] = 0
		case *lorawan.CFListChannelMaskPayload:
			for i, m := range v.ChannelMasks {
				var w uint16
				for k := 0; k < 16; k++ {
					if m[k] {
						w |= 1 << uint(k)
					}
				}
				cf[i*2], cf[i*2+1] = byte(w), byte(w>>8)
			}
			cf[15] = 1
		}
		out.CFList = cf
	}
	return out
}

// compareJoinAcceptFields checks a library-decoded join-accept against raw
// payload bytes using the spec layout (used for the wrong-key experiment).
func joinAcceptMatchesBytes(ja *lorawan.JoinAcceptPayload, pl []byte) string {
	if uint32(ja.JoinNonce) != uint32(pl[0])|uint32(pl[1])<<8|uint32(pl[2])<<16 {
		return "JoinNonce"
	}
	if ja.HomeNetID != [3]byte{pl[5], pl[4], pl[3]} {
		return "NetID"
	}
	if ja.DevAddr != [4]byte{pl[9], pl[8], pl[7], pl[6]} {
		return "DevAddr"
	}
	if ja.DLSettings.OptNeg != (pl[10]&0x80 != 0) || ja.DLSettings.RX1DROffset != pl[10]>>4&7 || ja.DLSettings.RX2DataRate != pl[10]&15 {
		return "DLSettings"
	}
	if ja.RXDelay != pl[11] {
		return "RXDelay"
	}
	if (len(pl) == 28) != (ja.CFList != nil) {
		return "CFList presence"
	}
	if ja.CFList != nil {
		cf := pl[12:]
		if byte(ja.CFList.CFListType) != cf[15] {
			return "CFListType"
		}
		switch v := ja.CFList.Payload.(type) {
		case *lorawan.CFListChannelPayload:
			for i := 0; i < 5; i++ {
				if v.Channels[i] != (uint32(cf[i*3])|uint32(cf[i*3+1])<<8|uint32(cf[i*3+2])<<16)*100 {
					return "CFList channel"
				}
			}
		case *lorawan.CFListChannelMaskPayload:
			var want []uint16
			for i := 0; i < 7; i++ {
				want = append(want, uint16(cf[i*2])|uint16(cf[i*2+1])<<8)
			}
			for len(want) > 0 && want[len(want)-1] == 0 {
				want = want[:len(want)-1]
			}
			if len(want) != len(v.ChannelMasks) {
				return "CFList mask count"
			}
			for i, m := range v.ChannelMasks {
				var w uint16
				for k := 0; k < 16; k++ {
					if m[k] {
						w |= 1 << uint(k)
					}
				}
				if w != want[i] {
					return "CFList mask"
				}
			}
		}
	}
	return ""
}

// Join MICs computed while other goroutines compute other join MICs (separate frames, separate keys):
// every call gives what it gives alone - which the sequential cases compare with the specification.
func c04Concurrent(c *core.Ctx) {
	type job struct {
		up   upJoin
		key  [16]byte
		ja   lorawan.JoinAcceptPayload
		jEUI [8]byte
		dn   uint16
		want [2]lorawan.MIC
	}
	r := c.RNG("concurrent", 0)
	mics := func(j *job) (out [2]lorawan.MIC, err error) {
		phy := j.up.lib()
		if err = phy.SetUplinkJoinMIC(lorawan.AES128Key(j.key)); err != nil {
			return
		}
		out[0] = phy.MIC
		ja := j.ja
		if ja.CFList != nil {
			cl := *ja.CFList
			ja.CFList = &cl
		}
		acc := lorawan.PHYPayload{MHDR: lorawan.MHDR{MType: lorawan.JoinAccept}, MACPayload: &ja}
		if err = acc.SetDownlinkJoinMIC(lorawan.JoinRequestType, lorawan.EUI64(j.jEUI), lorawan.DevNonce(j.dn), lorawan.AES128Key(j.key)); err != nil {
			return
		}
		out[1] = acc.MIC
		return
	}
	jobs := make([]*job, 8)
	for i := range jobs {
		j := &job{up: upJoin{kind: []string{"joinrequest", "rejoin02", "rejoin1"}[i%3], nonce: uint16(r.U32()), typ: byte(2 * (i % 2))}, key: key16(r), jEUI: eui(r), dn: uint16(r.U32())}
		r.Fill(j.up.joinEUI[:])
		r.Fill(j.up.devEUI[:])
		r.Fill(j.up.netID[:])
		r.Fill(j.ja.HomeNetID[:])
		r.Fill(j.ja.DevAddr[:])
		j.ja.JoinNonce = lorawan.JoinNonce(r.Intn(1 << 24))
		j.ja.DLSettings.OptNeg = i%2 == 0
		j.ja.RXDelay = uint8(r.Intn(16))
		if i%4 < 2 {
			j.ja.CFList = &lorawan.CFList{CFListType: lorawan.CFListChannel, Payload: &lorawan.CFListChannelPayload{Channels: [5]uint32{867100000, 867300000, 867500000, 867700000, 867900000}}}
		}
		var err error
		if p, _ := core.Guard(func() { j.want, err = mics(j) }); p || err != nil {
			return // judged by the sequential cases
		}
		jobs[i] = j
	}
	const rounds = 400
	bad := make([]string, len(jobs))
	var wg sync.WaitGroup
	for gi := range jobs {
		wg.Add(1)
		go func(gi int) {
			defer wg.Done()
			for k := 0; k < rounds; k++ {
				var got [2]lorawan.MIC
				var err error
				if p, msg := core.Guard(func() { got, err = mics(jobs[gi]) }); p || err != nil {
					bad[gi] = fmt.Sprintf("round %d: err=%v %s", k, err, msg)
					return
				}
				if got != jobs[gi].want {
					bad[gi] = fmt.Sprintf("round %d: request / accept MIC %x %x, alone %x %x", k, got[0][:], got[1][:], jobs[gi].want[0][:], jobs[gi].want[1][:])
					return
				}
			}
		}(gi)
	}
	wg.Wait()
	c.Eval(int64(2 * len(jobs) * rounds))
	for gi, b := range bad {
		if b != "" {
			c.Violate("C04|concurrent", "join MICs of frame %d (%s) computed while %d other goroutines compute theirs differ from the same calls made alone: %s", gi, jobs[gi].up.kind, len(jobs)-1, b)
			break
		}
	}
	c.Shape("concurrent", len(jobs), rounds)
}

func runC04(c *core.Ctx) {
	if c.Whole("concurrent") {
		c04Concurrent(c)
	}
	n := c.N(30000, 20000000)
	for i := int64(0); i < n; i++ {
		if !c.Mine("join", i) {
			continue
		}
		r := c.RNG("join", i)
		key := key16(r)
		major := byte(0)
		if r.Chance(1, 8) {
			major = mj(byte(r.Intn(4)))
		}
		switch i % 4 {
		case 0:
			c04Uplink(c, r, "joinrequest", key, major)
		case 1:
			c04Uplink(c, r, "rejoin02", key, major)
		case 2:
			c04Uplink(c, r, "rejoin1", key, major)
		case 3:
			c04JoinAccept(c, r, key, major)
		}
	}
}

type upJoin struct {
	kind    string
	major   byte
	joinEUI [8]byte
	devEUI  [8]byte
	netID   [3]byte
	nonce   uint16
	typ     byte
}

func (u upJoin) lib() lorawan.PHYPayload {
	switch u.kind {
	case "joinrequest":
		return lorawan.PHYPayload{MHDR: lorawan.MHDR{MType: lorawan.JoinRequest, Major: lorawan.Major(u.major)},
			MACPayload: &lorawan.JoinRequestPayload{JoinEUI: u.joinEUI, DevEUI: u.devEUI, DevNonce: lorawan.DevNonce(u.nonce)}}
	case "rejoin02":
		return lorawan.PHYPayload{MHDR: lorawan.MHDR{MType: lorawan.RejoinRequest, Major: lorawan.Major(u.major)},
			MACPayload: &lorawan.RejoinRequestType02Payload{RejoinType: lorawan.JoinType(u.typ), NetID: u.netID, DevEUI: u.devEUI, RJCount0: u.nonce}}
	default:
		return lorawan.PHYPayload{MHDR: lorawan.MHDR{MType: lorawan.RejoinRequest, Major: lorawan.Major(u.major)},
			MACPayload: &lorawan.RejoinRequestType1Payload{RejoinType: 1, JoinEUI: u.joinEUI, DevEUI: u.devEUI, RJCount1: u.nonce}}
	}
}

func (u upJoin) msg() []byte {
	switch u.kind {
	case "joinrequest":
		return spec.JoinRequestBytes(0<<5|u.major&3, u.joinEUI, u.devEUI, u.nonce)
	case "rejoin02":
		return spec.Rejoin02Bytes(6<<5|u.major&3, u.typ, u.netID, u.devEUI, u.nonce)
	default:
		return spec.Rejoin1Bytes(6<<5|u.major&3, 1, u.joinEUI, u.devEUI, u.nonce)
	}
}

func c04Uplink(c *core.Ctx, r *core.RNG, kind string, key [16]byte, major byte) {
	u := upJoin{kind: kind, major: major, joinEUI: eui(r), devEUI: eui(r), nonce: uint16(r.U32Edge())}
	r.Fill(u.netID[:])
	if kind == "rejoin02" {
		u.typ = byte(2 * r.Intn(2))
	}
	phy := u.lib()
	var err error
	c.Eval(1)
	if p, msg := core.Guard(func() { err = phy.SetUplinkJoinMIC(lorawan.AES128Key(key)) }); p || err != nil {
		c.Violate("C04|"+kind+"|set-failed", "%v %s", err, msg)
		return
	}
	want := spec.MIC4(key, u.msg())
	if [4]byte(phy.MIC) != want {
		c.Violate("C04|"+kind+"|mic-differs", "library %x != spec %x over %x (key %x)", [4]byte(phy.MIC), want, u.msg(), key)
		return
	}
	if c.WantSample(kind) {
		c.Sample(kind, map[string]interface{}{"msg": core.Hex(u.msg()), "key": core.Hex(key[:]), "mic": core.Hex(want[:])})
	}
	mic := phy.MIC
	type pert struct {
		name string
		do   func(u *upJoin, k *[16]byte)
	}
	perts := []pert{
		{"none", func(u *upJoin, k *[16]byte) {}},
		{"joineui-bit", func(u *upJoin, k *[16]byte) { flipBit(u.joinEUI[:], r) }},
		{"deveui-bit", func(u *upJoin, k *[16]byte) { flipBit(u.devEUI[:], r) }},
		{"netid-bit", func(u *upJoin, k *[16]byte) { flipBit(u.netID[:], r) }},
		{"nonce-bit", func(u *upJoin, k *[16]byte) { u.nonce ^= 1 << uint(r.Intn(16)) }},
		{"nonce-byteswap", func(u *upJoin, k *[16]byte) { u.nonce = u.nonce<<8 | u.nonce>>8 }},
		{"eui-swap", func(u *upJoin, k *[16]byte) { u.joinEUI, u.devEUI = u.devEUI, u.joinEUI }},
		{"major", func(u *upJoin, k *[16]byte) { u.major ^= byte(1 + r.Intn(3)) }},
		{"key-bit", func(u *upJoin, k *[16]byte) { flipBit(k[:], r) }},
		{"rejoin-type", func(u *upJoin, k *[16]byte) {
			if u.kind == "rejoin02" {
				u.typ ^= 2
			}
		}},
	}
	for _, pt := range perts {
		u2, k2 := u, key
		pt.do(&u2, &k2)
		phy2 := u2.lib()
		phy2.MIC = mic
		model := spec.MIC4(k2, u2.msg()) == [4]byte(mic)
		var got bool
		c.Eval(1)
		if p, msg := core.Guard(func() { got, err = phy2.ValidateUplinkJoinMIC(lorawan.AES128Key(k2)) }); p || err != nil {
			c.Violate("C04|"+kind+"|validate-error", "%v %s", err, msg)
			continue
		}
		if got != model {
			c.Violate(fmt.Sprintf("C04|%s|validate-disagrees|%s|lib=%v", kind, pt.name, got), "after %s: Validate=%v, model=%v (msg %x)", pt.name, got, model, u2.msg())
		}
		c.Shape(kind, pt.name, model)
	}
	c.Count("msgs."+kind, 1)
}

// c04Scribble: a caller that patches the bytes some Marshal call handed out (sets RFU bits in a header
// byte, appends to an identifier's bytes) must not thereby change what goes into later MICs and ciphertexts.
func c04Scribble(r *core.RNG) {
	for _, mt := range []lorawan.MType{lorawan.JoinRequest, lorawan.JoinAccept, lorawan.RejoinRequest} {
		for mj := 0; mj < 4; mj++ {
			h := lorawan.MHDR{MType: mt, Major: lorawan.Major(mj)}
			if b, err := h.MarshalBinary(); err == nil && len(b) > 0 {
				b[0] |= 0x1c
				_ = append(b, 0xff)
			}
		}
	}
	var e lorawan.EUI64
	var n lorawan.NetID
	var d lorawan.DevAddr
	r.Fill(e[:])
	for _, f := range []func() ([]byte, error){e.MarshalBinary, n.MarshalBinary, d.MarshalBinary, lorawan.DevNonce(r.Intn(65536)).MarshalBinary, lorawan.JoinNonce(r.Intn(1 << 24)).MarshalBinary} {
		if b, err := f(); err == nil {
			for i := range b {
				b[i] ^= 0xff
			}
		}
	}
}

func c04JoinAccept(c *core.Ctx, r *core.RNG, key [16]byte, major byte) {
	if r.Chance(1, 8) {
		c04Scribble(r)
	}
	ja := genJoinAccept(r)
	sj := specJoinAccept(ja)
	mhdr := byte(1<<5) | major&3
	reqType := []byte{0xff, 0, 1, 2}[r.Intn(4)]
	if r.Chance(1, 10) {
		// any other type byte is outside the property ("all four join-request types"): what the library does
		// with it - refuse it, or fold it into the MIC - is its own business, as long as it does not panic
		phyX := lorawan.PHYPayload{MHDR: lorawan.MHDR{MType: lorawan.JoinAccept, Major: lorawan.Major(major)}, MACPayload: cloneJoinAccept(ja)}
		tb := r.Byte()
		c.Eval(1)
		if p, msg := core.Guard(func() {
			_ = phyX.SetDownlinkJoinMIC(lorawan.JoinType(tb), lorawan.EUI64(eui(r)), lorawan.DevNonce(r.U32Edge()), lorawan.AES128Key(key))
		}); p {
			c.Violate("C04|joinaccept|undefined-type-panic", "SetDownlinkJoinMIC with join-request type %#x: %s", tb, msg)
		}
	}
	jEUI := eui(r)
	devNonce := uint16(r.U32Edge())
	cfKind := "none"
	if ja.CFList != nil {
		cfKind = fmt.Sprint(int(ja.CFList.CFListType))
	}

	mk := func(j *lorawan.JoinAcceptPayload) lorawan.PHYPayload {
		return lorawan.PHYPayload{MHDR: lorawan.MHDR{MType: lorawan.JoinAccept, Major: lorawan.Major(major)}, MACPayload: cloneJoinAccept(j)}
	}
	phy := mk(ja)
	var err error
	c.Eval(1)
	if p, msg := core.Guard(func() {
		err = phy.SetDownlinkJoinMIC(lorawan.JoinType(reqType), lorawan.EUI64(jEUI), lorawan.DevNonce(devNonce), lorawan.AES128Key(key))
	}); p || err != nil {
		c.Violate("C04|joinaccept|set-failed", "%v %s", err, msg)
		return
	}
	want := spec.JoinAcceptMIC(key, mhdr, sj, reqType, jEUI, devNonce)
	if [4]byte(phy.MIC) != want {
		c.Violate(fmt.Sprintf("C04|joinaccept|mic-differs|optneg=%v", ja.DLSettings.OptNeg), "library %x != spec %x; payload %x reqType=%#x joinEUI=%x devNonce=%d", [4]byte(phy.MIC), want, sj.Payload(), reqType, jEUI, devNonce)
		return
	}
	mic := phy.MIC

	// perturbations for Validate
	type jp struct {
		reqType  byte
		jEUI     [8]byte
		devNonce uint16
		key      [16]byte
		ja       *lorawan.JoinAcceptPayload
	}
	base := jp{reqType, jEUI, devNonce, key, ja}
	perts := []struct {
		name string
		do   func(p *jp)
	}{
		{"none", func(p *jp) {}},
		{"reqtype", func(p *jp) { // another of the four defined types
			others := []byte{}
			for _, t := range []byte{0xff, 0, 1, 2} {
				if t != p.reqType {
					others = append(others, t)
				}
			}
			p.reqType = others[r.Intn(len(others))]
		}},
		{"joineui-bit", func(p *jp) { flipBit(p.jEUI[:], r) }},
		{"devnonce-bit", func(p *jp) { p.devNonce ^= 1 << uint(r.Intn(16)) }},
		{"devnonce-byteswap", func(p *jp) { p.devNonce = p.devNonce<<8 | p.devNonce>>8 }},
		{"key-bit", func(p *jp) { flipBit(p.key[:], r) }},
		{"joinnonce", func(p *jp) { p.ja.JoinNonce ^= lorawan.JoinNonce(1 << uint(r.Intn(24))) }},
		{"netid-bit", func(p *jp) { flipBit(p.ja.HomeNetID[:], r) }},
		{"devaddr-bit", func(p *jp) { flipBit(p.ja.DevAddr[:], r) }},
		{"rx2dr", func(p *jp) { p.ja.DLSettings.RX2DataRate ^= uint8(1 + r.Intn(15)) }},
		{"rx1off", func(p *jp) { p.ja.DLSettings.RX1DROffset ^= uint8(1 + r.Intn(7)) }},
		{"optneg", func(p *jp) { p.ja.DLSettings.OptNeg = !p.ja.DLSettings.OptNeg }},
		{"rxdelay", func(p *jp) { p.ja.RXDelay ^= uint8(1 + r.Intn(15)) }},
		{"cflist-drop", func(p *jp) { p.ja.CFList = nil }},
	}
	for _, pt := range perts {
		p2 := base
		p2.ja = cloneJoinAccept(ja)
		pt.do(&p2)
		phy2 := mk(p2.ja)
		phy2.MIC = mic
		model := spec.JoinAcceptMIC(p2.key, mhdr, specJoinAccept(p2.ja), p2.reqType, p2.jEUI, p2.devNonce) == [4]byte(mic)
		var got bool
		c.Eval(1)
		if p, msg := core.Guard(func() {
			got, err = phy2.ValidateDownlinkJoinMIC(lorawan.JoinType(p2.reqType), lorawan.EUI64(p2.jEUI), lorawan.DevNonce(p2.devNonce), lorawan.AES128Key(p2.key))
		}); p || err != nil {
			c.Violate("C04|joinaccept|validate-error", "%v %s", err, msg)
			continue
		}
		if got != model {
			c.Violate(fmt.Sprintf("C04|joinaccept|validate-disagrees|%s|optneg=%v|lib=%v", pt.name, ja.DLSettings.OptNeg, got), "after %s: Validate=%v model=%v", pt.name, got, model)
		}
		c.Shape("joinaccept", pt.name, ja.DLSettings.OptNeg, cfKind, model)
	}

	// plausible wrong MICs: the value the *other* form of the specification (or a near miss of it) gives for
	// the same frame. A validator that "also accepts" one of them agrees with the model everywhere else.
	{
		msg10 := append([]byte{mhdr}, sj.Payload()...)
		pre := func(rt byte, e [8]byte, n uint16) []byte {
			out := []byte{rt}
			for i := 7; i >= 0; i-- {
				out = append(out, e[i])
			}
			return append(out, byte(n), byte(n>>8))
		}
		var revEUI [8]byte
		for i := range jEUI {
			revEUI[i] = jEUI[7-i]
		}
		forged := map[string][4]byte{
			"1.0-form":                  spec.MIC4(key, msg10),
			"1.1-form":                  spec.MIC4(key, append(pre(reqType, jEUI, devNonce), msg10...)),
			"1.1-form-joinreqtype":      spec.MIC4(key, append(pre(0xff, jEUI, devNonce), msg10...)),
			"1.1-form-rejoin0":          spec.MIC4(key, append(pre(0, jEUI, devNonce), msg10...)),
			"1.1-form-eui-not-reversed": spec.MIC4(key, append(pre(reqType, revEUI, devNonce), msg10...)),
			"1.1-form-nonce-swapped":    spec.MIC4(key, append(pre(reqType, jEUI, devNonce<<8|devNonce>>8), msg10...)),
			"payload-without-mhdr":      spec.MIC4(key, sj.Payload()),
			"zero":                      {},
		}
		names := make([]string, 0, len(forged))
		for n := range forged {
			names = append(names, n)
		}
		sort.Strings(names)
		for _, n := range names {
			m := forged[n]
			phy2 := mk(ja)
			phy2.MIC = lorawan.MIC(m)
			var got bool
			c.Eval(1)
			if p, msg := core.Guard(func() {
				got, err = phy2.ValidateDownlinkJoinMIC(lorawan.JoinType(reqType), lorawan.EUI64(jEUI), lorawan.DevNonce(devNonce), lorawan.AES128Key(key))
			}); p || err != nil {
				c.Violate("C04|joinaccept|validate-error", "%v %s", err, msg)
				continue
			}
			if got != (m == want) {
				c.Violate(fmt.Sprintf("C04|joinaccept|forged-mic|%s|optneg=%v|lib=%v", n, ja.DLSettings.OptNeg, got), "frame carrying the %s value %x (specification: %x) for reqType %#x: Validate=%v", n, m, want, reqType, got)
			}
			c.Shape("joinaccept-forged", n, ja.DLSettings.OptNeg, m == want)
		}
	}

	// encryption
	encKey := key16(r)
	c.Eval(1)
	if p, msg := core.Guard(func() { err = phy.EncryptJoinAcceptPayload(lorawan.AES128Key(encKey)) }); p || err != nil {
		c.Violate("C04|joinaccept|encrypt-failed", "%v %s", err, msg)
		return
	}
	if r.Chance(1, 200) {
		// the encrypted frame is held for a while (queued for the RX window) before it is serialised:
		// two collections with finalizers in between
		runtime.GC()
		time.Sleep(2 * time.Millisecond)
		runtime.GC()
		time.Sleep(time.Millisecond)
	}
	wantCT, _ := spec.JoinAcceptEncrypt(encKey, sj.Payload(), want)
	var wire []byte
	if p, msg := core.Guard(func() { wire, err = phy.MarshalBinary() }); p || err != nil {
		c.Violate("C04|joinaccept|marshal-failed", "%v %s", err, msg)
		return
	}
	if !bytes.Equal(wire, append([]byte{mhdr}, wantCT...)) {
		c.Violate(fmt.Sprintf("C04|joinaccept|ciphertext-differs|cflist=%s", cfKind), "wire %x != MHDR|aes128_decrypt(payload|MIC) %x%x", wire, []byte{mhdr}, wantCT)
		return
	}
	// the device recovers it with AES-encrypt
	pl, dmic, derr := spec.JoinAcceptDecrypt(encKey, wire[1:])
	if derr != nil || !bytes.Equal(pl, sj.Payload()) || dmic != want {
		c.Violate("C04|joinaccept|device-cannot-recover", "device-side AES-encrypt gives %x mic %x, want %x mic %x", pl, dmic, sj.Payload(), want)
	}
	if c.WantSample("joinaccept") {
		c.Sample("joinaccept", map[string]interface{}{"payload": core.Hex(sj.Payload()), "mic": core.Hex(want[:]), "wire": core.Hex(wire), "optneg": ja.DLSettings.OptNeg})
	}
	// decrypting a (shallow) copy of the encrypted frame must not disturb the encrypted original
	cp := phy
	c.Eval(2)
	if p, msg := core.Guard(func() { err = cp.DecryptJoinAcceptPayload(lorawan.AES128Key(encKey)) }); p || err != nil {
		c.Violate("C04|joinaccept|decrypt-copy-failed", "%v %s", err, short(msg, 200))
	} else if again, err := phy.MarshalBinary(); err != nil || !bytes.Equal(again, wire) {
		c.Violate("C04|joinaccept|decrypt-copy-changes-original", "after decrypting a copy of the encrypted frame the original marshals to %x (%v), before: %x", again, err, wire)
	} else if cj, ok := cp.MACPayload.(*lorawan.JoinAcceptPayload); !ok || joinAcceptMatchesBytes(cj, sj.Payload()) != "" || cp.MIC != mic {
		c.Violate("C04|joinaccept|decrypt-copy-differs", "decrypting the frame Encrypt produced (without a marshal round trip) gives a different payload")
	}
	// library decrypt (right key) and validate
	var rx lorawan.PHYPayload
	c.Eval(1)
	if err := rx.UnmarshalBinary(wire); err != nil {
		c.Violate("C04|joinaccept|unmarshal-failed", "%v", err)
		return
	}
	if p, msg := core.Guard(func() { err = rx.DecryptJoinAcceptPayload(lorawan.AES128Key(encKey)) }); p || err != nil {
		c.Violate("C04|joinaccept|decrypt-failed", "%v %s", err, msg)
		return
	}
	rj, ok := rx.MACPayload.(*lorawan.JoinAcceptPayload)
	if !ok || rx.MIC != mic || joinAcceptMatchesBytes(rj, sj.Payload()) != "" {
		c.Violate("C04|joinaccept|decrypt-differs", "decrypted join-accept differs in %s (mic %x want %x)", joinAcceptMatchesBytes(rj, sj.Payload()), [4]byte(rx.MIC), want)
	} else if okv, err := rx.ValidateDownlinkJoinMIC(lorawan.JoinType(reqType), lorawan.EUI64(jEUI), lorawan.DevNonce(devNonce), lorawan.AES128Key(key)); err != nil || !okv {
		c.Violate("C04|joinaccept|decrypted-mic-invalid", "MIC of the decrypted join-accept does not validate: %v %v", okv, err)
	}
	// wrong key: whatever the model's AES gives, never a panic
	wk := encKey
	flipBit(wk[:], r)
	var rx2 lorawan.PHYPayload
	rx2.UnmarshalBinary(wire)
	c.Eval(1)
	if p, msg := core.Guard(func() { err = rx2.DecryptJoinAcceptPayload(lorawan.AES128Key(wk)) }); p {
		c.Violate("C04|joinaccept|wrong-key-panic", "%s", msg)
	} else if err == nil {
		gpl, gmic, _ := spec.JoinAcceptDecrypt(wk, wire[1:])
		rj2, ok := rx2.MACPayload.(*lorawan.JoinAcceptPayload)
		if !ok || [4]byte(rx2.MIC) != gmic || joinAcceptMatchesBytes(rj2, gpl) != "" {
			c.Violate("C04|joinaccept|wrong-key-differs", "wrong-key decrypt differs from the model in %s", joinAcceptMatchesBytes(rj2, gpl))
		}
	}
	// a received ciphertext that itself reads like a finished join-accept: a well-formed 12-byte 1.0 payload
	// followed by its valid MIC under the very key it is decrypted with. It is a ciphertext all the same,
	// and what the device-side AES gives for it is the answer (random bytes hit this once in 2^32 frames;
	// it is built backwards here)
	if r.Chance(1, 8) {
		look := genJoinAccept(r)
		look.CFList = nil
		look.DLSettings.OptNeg = false
		lsj := specJoinAccept(look)
		lmic := spec.JoinAcceptMIC(encKey, mhdr, lsj, 0xff, [8]byte{}, 0)
		ct := append(append([]byte{mhdr}, lsj.Payload()...), lmic[:]...)
		var rx3 lorawan.PHYPayload
		c.Eval(1)
		if rx3.UnmarshalBinary(append([]byte{}, ct...)) == nil {
			if p, msg := core.Guard(func() { err = rx3.DecryptJoinAcceptPayload(lorawan.AES128Key(encKey)) }); p {
				c.Violate("C04|joinaccept|lookalike-ciphertext|panic", "%s", msg)
			} else if err == nil {
				gpl, gmic, _ := spec.JoinAcceptDecrypt(encKey, ct[1:])
				rj3, ok := rx3.MACPayload.(*lorawan.JoinAcceptPayload)
				if gpl[len(gpl)-1] > 1 && len(gpl) == 28 {
					ok = true // (cannot happen for the 12-byte form; kept for symmetry)
				}
				if !ok || [4]byte(rx3.MIC) != gmic || joinAcceptMatchesBytes(rj3, gpl) != "" {
					c.Violate("C04|joinaccept|lookalike-ciphertext|decrypt-differs", "ciphertext %x (which reads like a plaintext join-accept with a valid MIC) decrypts to %s mic %x; device-side AES gives %x mic %x", ct, short(core.Dump(rx3.MACPayload), 200), [4]byte(rx3.MIC), gpl, gmic)
				}
			}
			c.Shape("joinaccept-lookalike-ciphertext")
		}
	}
	c.Count("msgs.joinaccept", 1)
}
