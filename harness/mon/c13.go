package mon

import (
	"fmt"
	"sort"

	"github.com/brocaar/lorawan/band"

	"lwverif/core"
	"lwverif/spec"
)

func init() {
	core.Register(&core.Property{
		ID:   "C13",
		Rule: "all 56 band configurations x 7 protocol versions (6 known + \"zz\") x 8 regional-parameter revisions (7 known + \"zz\") x data-rate index -1..16, swept completely in both tiers through GetMaxPayloadSizeForDataRateIndex and compared with a two-level fallback model over the hook snapshot; closure of every data-rate index the band hands out (channel ranges, RX1 results, RX2 default, enabled uplink data-rates) under GetDataRate; GetDataRateIndex(dir, GetDataRate(i)) == i for every defined index and supported direction (any index with identical parameters in that direction accepted); size relations (M = N+8, N <= 242, repeater <= non-repeater, non-decreasing as SF decreases at equal bandwidth among data-rates sharing a direction; (0,0) is the N/A cell); reference values (channel frequencies and DR ranges, RX2, DR definitions, TX-power steps) from harness/spec/regional.go. Distinct = (config, version, revision, DR) cells.",
		Assumptions: []string{
			"(0,0) max-payload cells denote the Regional Parameters' 'N/A' (AS923/AU915/CN470 under dwell-time) and are skipped",
			"TX-power tables: offset[i] = -2*i dB with a length published in some revision; LR-FHSS indices and CN470 DR6/7 definitions are not pinned (they differ between revisions)",
		},
		MinEvals: 1000,
		Run:      runC13,
	})
}

var c13Versions = []string{band.LoRaWAN_1_0_0, band.LoRaWAN_1_0_1, band.LoRaWAN_1_0_2, band.LoRaWAN_1_0_3, band.LoRaWAN_1_0_4, band.LoRaWAN_1_1_0, "zz", "", "1.0", "1.1", "1", "1.0.5", "1.0.3-rc1", "v1.0.3", "1.0.2A", "1.0.2B", "1.1.0A", "latest", "latestlatest"} // all after 1.1.0 are unknown strings: they resolve to the latest table
var c13Revisions = []string{band.RegParamRevA, band.RegParamRevB, band.RegParamRevC, band.RegParamRevRP002_1_0_0, band.RegParamRevRP002_1_0_1, band.RegParamRevRP002_1_0_2, band.RegParamRevRP002_1_0_3, "zz", "", "RP002-1.0.4", "a", "D", "1.0.2A", "latest", "2A", "0.2A"}

type sizeKey struct {
	name     string
	dwell    bool
	ver, rev string
	dr       int
}

func runC13(c *core.Ctx) {
	bandFingerprints(c, "band-tables")
	cfgs := allBandCfgs()
	// sizes of every (config, version, revision, dr) for the repeater relation; cheap enough to compute in every worker that needs it
	for ci, cfg := range cfgs {
		if !c.Mine("band", int64(ci)) {
			continue
		}
		b, err := cfg.New()
		if err != nil {
			c.Violate("C13|getconfig|"+cfg.Name, "%v", err)
			continue
		}
		snap, ok := band.VerifSnapshotOf(b)
		if !ok {
			c.Violate("C13|hook-missing", "no snapshot for %s", cfg.Name)
			continue
		}
		reg := spec.Regions[cfg.Name]
		c13Closure(c, cfg, b, snap)
		c13Lookup(c, cfg, b, snap)
		c13Sizes(c, cfg, b, snap)
		c13Reference(c, cfg, b, snap, reg)
		// the closure laws on plans that are no longer the default one: a custom channel whose
		// data-rate range leaves a gap to the others, then with the default channels switched off
		if reg.ExtraChannels {
			top := -1
			for dr, d := range snap.DataRates {
				if d.Uplink && dr > top {
					top = dr
				}
			}
			if b2, err := cfg.New(); err == nil && top >= 0 {
				b2.AddChannel(reg.Uplink[0].Freq+1800000, top, top)
				// ... and one on a frequency the default plan already uses: the default channels stay what the
				// Regional Parameters say (adding never alters a standard channel)
				b2.AddChannel(reg.Uplink[len(reg.Uplink)-1].Freq, top, top)
				for i := range reg.Uplink {
					want, _ := b.GetUplinkChannel(i) // the untouched instance, itself compared with the Regional Parameters above
					if ch, err := b2.GetUplinkChannel(i); err != nil || ch != want {
						c.Violate(fmt.Sprintf("C13|%s|default-channel-altered|ch=%d", cfg.Name, i), "after AddChannel calls default uplink channel %d is %+v (err %v); it was %+v", i, ch, err, want)
						break
					}
				}
				if n := len(b2.GetUplinkChannelIndices()); n != len(reg.Uplink)+2 {
					c.Violate("C13|"+cfg.Name+"|channel-count-after-add", "%d uplink channels after two AddChannel calls on a plan of %d", n, len(reg.Uplink))
				}
				c13Closure(c, cfg, b2, snap)
				b2.AddChannel(reg.Uplink[0].Freq+2000000, 0, 0)
				for i := range reg.Uplink {
					b2.DisableUplinkChannelIndex(i)
				}
				c13Closure(c, cfg, b2, snap)
			}
		} else if b2, err := cfg.New(); err == nil {
			for _, i := range b2.GetUplinkChannelIndices() {
				if i%3 != 0 {
					b2.DisableUplinkChannelIndex(i)
				}
			}
			c13Closure(c, cfg, b2, snap)
			for _, i := range b2.GetUplinkChannelIndices() {
				if i < 64 {
					b2.DisableUplinkChannelIndex(i)
				}
			}
			c13Closure(c, cfg, b2, snap)
		}
	}
}

func defined(b band.Band, dr int) bool {
	_, err := b.GetDataRate(dr)
	return err == nil
}

func c13Closure(c *core.Ctx, cfg bandCfg, b band.Band, snap band.VerifSnapshot) {
	chk := func(what string, dr int) {
		c.Eval(1)
		if !defined(b, dr) {
			c.Violate(fmt.Sprintf("C13|%s|undefined-dr|%s|dr=%d", cfg.Name, what, dr), "%s refers to DR%d which GetDataRate does not define", what, dr)
		}
	}
	for _, i := range b.GetUplinkChannelIndices() {
		ch, _ := b.GetUplinkChannel(i)
		for dr := ch.MinDR; dr <= ch.MaxDR; dr++ {
			chk("uplink-channel-range", dr)
		}
		if ch.MinDR > ch.MaxDR {
			c.Violate(fmt.Sprintf("C13|%s|channel-range-inverted|ch=%d", cfg.Name, i), "uplink channel %d: MinDR %d > MaxDR %d", i, ch.MinDR, ch.MaxDR)
		}
	}
	for i := 0; ; i++ {
		ch, err := b.GetDownlinkChannel(i)
		if err != nil {
			break
		}
		for dr := ch.MinDR; dr <= ch.MaxDR; dr++ {
			chk("downlink-channel-range", dr)
		}
	}
	for ul := 0; ul <= 15; ul++ {
		for off := 0; off <= 7; off++ {
			var dr int
			var err error
			if p, _ := core.Guard(func() { dr, err = b.GetRX1DataRateIndex(ul, off) }); !p && err == nil {
				chk("rx1-result", dr)
			}
		}
	}
	chk("rx2-default", b.GetDefaults().RX2DataRate)
	for _, dr := range b.GetEnabledUplinkDataRates() {
		chk("enabled-uplink-data-rates", dr)
	}
	// ... and they lie between the two readings of "enabled": every data-rate of an enabled uplink
	// channel is listed, and nothing is listed that no uplink channel of the plan supports
	// (the library lists the data-rates of all channels of the plan, enabled or not)
	mustDR, mayDR := map[int]bool{}, map[int]bool{}
	for _, i := range b.GetUplinkChannelIndices() {
		if ch, err := b.GetUplinkChannel(i); err == nil {
			for dr := ch.MinDR; dr <= ch.MaxDR; dr++ {
				mayDR[dr] = true
			}
		}
	}
	for _, i := range b.GetEnabledUplinkChannelIndices() {
		if ch, err := b.GetUplinkChannel(i); err == nil {
			for dr := ch.MinDR; dr <= ch.MaxDR; dr++ {
				mustDR[dr] = true
			}
		}
	}
	gotDR := map[int]bool{}
	for _, dr := range b.GetEnabledUplinkDataRates() {
		gotDR[dr] = true
	}
	c.Eval(1)
	for dr := -1; dr <= 16; dr++ {
		if (gotDR[dr] && !mayDR[dr]) || (!gotDR[dr] && mustDR[dr]) {
			c.Violate(fmt.Sprintf("C13|%s|enabled-uplink-data-rates|dr=%d|listed=%v", cfg.Name, dr, gotDR[dr]), "GetEnabledUplinkDataRates() = %v; DR%d: supported by an enabled uplink channel = %v, by any uplink channel = %v", b.GetEnabledUplinkDataRates(), dr, mustDR[dr], mayDR[dr])
			break
		}
	}
	// the snapshot and the public API agree on what is defined
	for dr := -1; dr <= 16; dr++ {
		_, inSnap := snap.DataRates[dr]
		c.Eval(1)
		if inSnap != defined(b, dr) {
			c.Violate(fmt.Sprintf("C13|%s|getdatarate|dr=%d", cfg.Name, dr), "GetDataRate(%d) defined=%v, table has it=%v", dr, defined(b, dr), inSnap)
		}
	}
}

func sameParams(a, b band.DataRate) bool {
	return a.Modulation == b.Modulation && a.SpreadFactor == b.SpreadFactor && a.Bandwidth == b.Bandwidth && a.BitRate == b.BitRate && a.CodingRate == b.CodingRate && a.OccupiedChannelWidth == b.OccupiedChannelWidth
}

func c13Lookup(c *core.Ctx, cfg bandCfg, b band.Band, snap band.VerifSnapshot) {
	for i, d := range snap.DataRates {
		dr, err := b.GetDataRate(i)
		if err != nil {
			continue
		}
		for _, up := range []bool{true, false} {
			if (up && !d.Uplink) || (!up && !d.Downlink) {
				continue
			}
			// repeat: the implementation iterates a map, so a wrong answer may be order dependent
			for rep := 0; rep < 8; rep++ {
				var got int
				c.Eval(1)
				p, msg := core.Guard(func() { got, err = b.GetDataRateIndex(up, dr) })
				if p || err != nil {
					c.Violate(fmt.Sprintf("C13|%s|getdatarateindex-error|dr=%d|up=%v", cfg.Name, i, up), "GetDataRateIndex(up=%v, %+v): %v %s", up, dr, err, msg)
					break
				}
				if got != i {
					g, ok := snap.DataRates[got]
					if !(ok && sameParams(g.DataRate, d.DataRate) && ((up && g.Uplink) || (!up && g.Downlink))) {
						c.Violate(fmt.Sprintf("C13|%s|getdatarateindex|dr=%d|up=%v|got=%d", cfg.Name, i, up, got), "GetDataRateIndex(up=%v, DR%d parameters %+v) = %d", up, i, dr, got)
						break
					}
				}
			}
			c.Shape("lookup", cfg.Name, i, up)
		}
		// a direction the data-rate does not support is outside the property ("in a direction it supports"):
		// an error, or falling back to the other direction's entry, are both fine - it must only not panic
		for _, up := range []bool{true, false} {
			if (up && d.Uplink) || (!up && d.Downlink) {
				continue
			}
			c.Eval(1)
			if p, msg := core.Guard(func() { _, _ = b.GetDataRateIndex(up, dr) }); p {
				c.Violate(fmt.Sprintf("C13|%s|getdatarateindex-panic|dr=%d|up=%v", cfg.Name, i, up), "GetDataRateIndex(up=%v, DR%d parameters): %s", up, i, msg)
			}
		}
	}
}

func modelSize(snap band.VerifSnapshot, ver, rev string, dr int) (band.MaxPayloadSize, bool) {
	m1, ok := snap.MaxPayloadSizePerDR[ver]
	if !ok {
		m1, ok = snap.MaxPayloadSizePerDR[snap.Latest]
		if !ok {
			return band.MaxPayloadSize{}, false
		}
	}
	m2, ok := m1[rev]
	if !ok {
		m2, ok = m1[snap.Latest]
		if !ok {
			return band.MaxPayloadSize{}, false
		}
	}
	ps, ok := m2[dr]
	return ps, ok
}

// resolved names the table cell a (version, revision) request falls back to.
func resolved(snap band.VerifSnapshot, ver, rev string) string {
	m1, ok := snap.MaxPayloadSizePerDR[ver]
	if !ok {
		ver = snap.Latest
		m1 = snap.MaxPayloadSizePerDR[ver]
	}
	if _, ok := m1[rev]; !ok {
		rev = snap.Latest
	}
	return ver + "/" + rev
}

func c13Sizes(c *core.Ctx, cfg bandCfg, b band.Band, snap band.VerifSnapshot) {
	// the non-repeater twin for the repeater relation
	var twin band.Band
	if cfg.Repeater {
		twin, _ = bandCfg{cfg.Name, false, cfg.Dwell}.New()
	}
	type sizeAnswer struct {
		ps band.MaxPayloadSize
		ok bool
	}
	first := map[string]sizeAnswer{}
	if _, ok := snap.MaxPayloadSizePerDR[snap.Latest]; !ok {
		c.Violate("C13|"+cfg.Name+"|no-latest-version", "max payload table has no %q version key", snap.Latest)
	} else if _, ok := snap.MaxPayloadSizePerDR[snap.Latest][snap.Latest]; !ok {
		c.Violate("C13|"+cfg.Name+"|no-latest-revision", "max payload table has no %q revision under %q", snap.Latest, snap.Latest)
	}
	for _, ver := range c13Versions {
		for _, rev := range c13Revisions {
			type row struct {
				dr int
				n  int
			}
			var rows []row
			for dr := -1; dr <= 16; dr++ {
				var ps band.MaxPayloadSize
				var err error
				c.Eval(1)
				if p, msg := core.Guard(func() { ps, err = b.GetMaxPayloadSizeForDataRateIndex(ver, rev, dr) }); p {
					c.Violate("C13|"+cfg.Name+"|maxpayload-panic", "(%s,%s,%d): %s", ver, rev, dr, msg)
					continue
				}
				want, ok := modelSize(snap, ver, rev, dr)
				c.Shape("size", cfg.String(), ver, rev, dr)
				first[fmt.Sprintf("%s|%s|%d", ver, rev, dr)] = sizeAnswer{ps, err == nil}
				if !ok && err == nil {
					// the selected table does not list this data-rate and the library answers nevertheless (from
					// another revision's table, say): the property does not forbid that - the answer is held to
					// the clauses on sizes below like any other
					c.Count("sizes.answered-beyond-the-selected-table", 1)
				} else if ok != (err == nil) || (ok && ps != want) {
					c.Violate(fmt.Sprintf("C13|%s|fallback|ver=%s|rev=%s|dr=%d", cfg.Name, ver, rev, dr), "GetMaxPayloadSizeForDataRateIndex(%s, %s, %d) = %+v err=%v; two-level 'latest' fallback over the table gives %+v ok=%v", ver, rev, dr, ps, err, want, ok)
					continue
				}
				if ver == "zz" && rev == "zz" {
					if _, isDef := snap.DataRates[dr]; isDef && err != nil {
						c.Violate(fmt.Sprintf("C13|%s|latest-missing-dr|dr=%d", cfg.Name, dr), "DR%d is defined but has no maximum payload size under the latest revision", dr)
					}
				}
				if err != nil {
					continue
				}
				if _, isDef := snap.DataRates[dr]; !isDef {
					// a size listed for an index that is not a data-rate is outside the property (it only
					// asks that defined data-rates have sizes): counted, not judged
					c.Count("sizes.listed-for-undefined-dr", 1)
					continue
				}
				if ps.M == 0 && ps.N == 0 {
					c.Count("sizes.na-cells", 1)
					continue
				}
				c.Count("sizes.checked", 1)
				key := fmt.Sprintf("C13|%s|rep=%v|dwell=%v|table=%s|dr=%d", cfg.Name, cfg.Repeater, cfg.Dwell, resolved(snap, ver, rev), dr)
				if ps.M != ps.N+8 {
					c.Violate(key+"|m-n", "M=%d N=%d: M != N+8", ps.M, ps.N)
				}
				if ps.N > 242 || ps.N < 0 {
					c.Violate(key+"|n-range", "N=%d", ps.N)
				}
				if twin != nil {
					tp, terr := twin.GetMaxPayloadSizeForDataRateIndex(ver, rev, dr)
					if terr == nil && !(tp.M == 0 && tp.N == 0) && ps.N > tp.N {
						c.Violate(key+"|repeater-exceeds", "repeater-compatible N=%d > non-repeater N=%d", ps.N, tp.N)
					}
				}
				rows = append(rows, row{dr, ps.N})
			}
			// SF monotonicity among LoRa data-rates of equal bandwidth sharing a direction
			for _, a := range rows {
				for _, bb := range rows {
					da, db := snap.DataRates[a.dr], snap.DataRates[bb.dr]
					if da.Modulation != band.LoRaModulation || db.Modulation != band.LoRaModulation || da.Bandwidth != db.Bandwidth {
						continue
					}
					if !((da.Uplink && db.Uplink) || (da.Downlink && db.Downlink)) {
						continue
					}
					if da.SpreadFactor > db.SpreadFactor && a.n > bb.n {
						c.Violate(fmt.Sprintf("C13|%s|rep=%v|dwell=%v|table=%s|sf-monotone|dr=%d>dr=%d", cfg.Name, cfg.Repeater, cfg.Dwell, resolved(snap, ver, rev), a.dr, bb.dr),
							"DR%d (SF%d/BW%d) N=%d exceeds DR%d (SF%d/BW%d) N=%d", a.dr, da.SpreadFactor, da.Bandwidth, a.n, bb.dr, db.SpreadFactor, db.Bandwidth, bb.n)
					}
				}
			}
		}
	}
	// the same questions in a seeded random order on the same band object (a lookup
	// that memoises per object may depend on the order of the requests)
	type q struct {
		ver, rev string
		dr       int
	}
	var qs []q
	for _, ver := range c13Versions {
		for _, rev := range c13Revisions {
			for dr := 0; dr <= 15; dr++ {
				qs = append(qs, q{ver, rev, dr})
			}
		}
	}
	r := c.RNG("size-order", int64(len(cfg.String()))<<8|int64(cfg.String()[0]))
	for pass := 0; pass < 3; pass++ {
		perm := r.Perm(len(qs))
		if pass == 1 { // revision outer, version inner
			perm = perm[:0]
			for ri := range c13Revisions {
				for dr := 0; dr <= 15; dr++ {
					for vi := range c13Versions {
						perm = append(perm, (vi*len(c13Revisions)+ri)*16+dr)
					}
				}
			}
		}
		for _, pi := range perm {
			x := qs[pi]
			ps, err := b.GetMaxPayloadSizeForDataRateIndex(x.ver, x.rev, x.dr)
			fa := first[fmt.Sprintf("%s|%s|%d", x.ver, x.rev, x.dr)]
			want, ok := fa.ps, fa.ok
			c.Eval(1)
			if ok != (err == nil) || (ok && ps != want) {
				c.Violate(fmt.Sprintf("C13|%s|order-dependent-lookup|pass=%d", cfg.Name, pass), "asked in a different order, GetMaxPayloadSizeForDataRateIndex(%s, %s, %d) = %+v err=%v; the first answer was %+v ok=%v", x.ver, x.rev, x.dr, ps, err, want, ok)
				break
			}
		}
	}
	if c.WantSample("sizes") {
		ps, _ := b.GetMaxPayloadSizeForDataRateIndex("zz", "zz", 0)
		c.Sample("sizes", map[string]interface{}{"band": cfg.String(), "version": "zz", "revision": "zz", "dr": 0, "M": ps.M, "N": ps.N})
	}
}

func c13Reference(c *core.Ctx, cfg bandCfg, b band.Band, snap band.VerifSnapshot, reg *spec.Region) {
	// data-rate definitions
	var idx []int
	for i := range snap.DataRates {
		idx = append(idx, i)
	}
	sort.Ints(idx)
	for _, i := range idx {
		d := snap.DataRates[i]
		want, pinned := reg.DataRates[i]
		c.Eval(1)
		if !pinned {
			if !inInts(reg.LRFHSS, i) && !inInts(reg.Unpinned, i) {
				c.Violate(fmt.Sprintf("C13|%s|unexpected-dr|dr=%d", cfg.Name, i), "DR%d (%+v) is not a data-rate of %s in the Regional Parameters", i, d.DataRate, cfg.Name)
			} else if inInts(reg.LRFHSS, i) && (d.Modulation != band.LRFHSSModulation || d.Downlink || !d.Uplink) {
				c.Violate(fmt.Sprintf("C13|%s|lrfhss-dr|dr=%d", cfg.Name, i), "DR%d should be an uplink-only LR-FHSS data-rate: %+v up=%v down=%v", i, d.DataRate, d.Uplink, d.Downlink)
			}
			continue
		}
		if string(d.Modulation) != want.Modulation || d.SpreadFactor != want.SF || d.Bandwidth != want.BW || d.BitRate != want.BitRate || d.Uplink != want.Up || d.Downlink != want.Down {
			c.Violate(fmt.Sprintf("C13|%s|dr-definition|dr=%d", cfg.Name, i), "DR%d is %+v up=%v down=%v; Regional Parameters: %+v", i, d.DataRate, d.Uplink, d.Downlink, want)
		}
	}
	for i := range reg.DataRates {
		if _, ok := snap.DataRates[i]; !ok {
			c.Violate(fmt.Sprintf("C13|%s|dr-missing|dr=%d", cfg.Name, i), "DR%d of the Regional Parameters is not defined", i)
		}
	}
	// default channels
	chk := func(kind string, got []band.VerifChannel, want []spec.Chan) {
		c.Eval(int64(len(want)))
		if len(got) != len(want) {
			c.Violate(fmt.Sprintf("C13|%s|%s-channel-count", cfg.Name, kind), "%d channels, Regional Parameters: %d", len(got), len(want))
			return
		}
		for i := range want {
			g := got[i]
			okMax := g.MaxDR == want[i].MaxDR
			if !okMax && g.MaxDR > want[i].MaxDR {
				okMax = true
				for d := want[i].MaxDR + 1; d <= g.MaxDR; d++ {
					if !inInts(reg.LRFHSS, d) {
						okMax = false
					}
				}
			}
			if g.Frequency != want[i].Freq || g.MinDR != want[i].MinDR || !okMax || !g.Enabled || g.Custom {
				c.Violate(fmt.Sprintf("C13|%s|%s-channel|ch=%d", cfg.Name, kind, i), "default %s channel %d is %+v; Regional Parameters: %+v", kind, i, g, want[i])
			}
		}
	}
	chk("uplink", snap.UplinkChannels, reg.Uplink)
	chk("downlink", snap.DownlinkChannels, reg.Downlink)
	// RX2
	d := b.GetDefaults()
	if d.RX2Frequency != reg.RX2Freq || d.RX2DataRate != reg.RX2DR {
		c.Violate("C13|"+cfg.Name+"|rx2-defaults", "RX2 %d Hz DR%d; Regional Parameters: %d Hz DR%d", d.RX2Frequency, d.RX2DataRate, reg.RX2Freq, reg.RX2DR)
	}
	// TX power
	if !inInts(reg.TXPowerLens, len(snap.TXPowerOffsets)) {
		c.Violate("C13|"+cfg.Name+"|txpower-length", "%d TX-power steps; published lengths: %v", len(snap.TXPowerOffsets), reg.TXPowerLens)
	}
	for i := 0; i < len(snap.TXPowerOffsets); i++ {
		var off int
		var err error
		c.Eval(1)
		if p, msg := core.Guard(func() { off, err = b.GetTXPowerOffset(i) }); p || err != nil || off != -2*i {
			c.Violate(fmt.Sprintf("C13|%s|txpower|index=%d", cfg.Name, i), "GetTXPowerOffset(%d) = %d err=%v %s; Regional Parameters: %d dB", i, off, err, msg, -2*i)
		}
	}
	if _, err := b.GetTXPowerOffset(len(snap.TXPowerOffsets)); err == nil {
		c.Violate("C13|"+cfg.Name+"|txpower-past-end", "GetTXPowerOffset(%d) accepted", len(snap.TXPowerOffsets))
	}
	if snap.SupportsExtraChannels != reg.ExtraChannels || (reg.ExtraChannels && (snap.CFListMinDR != reg.CFListMinDR || snap.CFListMaxDR != reg.CFListMaxDR)) {
		c.Violate("C13|"+cfg.Name+"|cflist-config", "extra channels=%v CFList DR %d..%d; expected %v %d..%d", snap.SupportsExtraChannels, snap.CFListMinDR, snap.CFListMaxDR, reg.ExtraChannels, reg.CFListMinDR, reg.CFListMaxDR)
	}
}
