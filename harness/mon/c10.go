package mon

import (
	"bytes"
	"encoding/binary"
	"fmt"
	"reflect"
	"strings"

	"github.com/brocaar/lorawan"
	"github.com/brocaar/lorawan/applayer/clocksync"
	"github.com/brocaar/lorawan/applayer/firmwaremanagement"
	"github.com/brocaar/lorawan/applayer/fragmentation"
	"github.com/brocaar/lorawan/applayer/multicastsetup"
	"github.com/brocaar/lorawan/band"

	"lwverif/core"
)

func init() {
	core.Register(&core.Property{
		ID:   "C10",
		Rule: "memory-effect monitors on the real code: (1) input aliasing - every decoder type decodes buffer B (also as a sub-slice with spare capacity) and a pristine copy, B is overwritten with 0xEE and both values must still be equal; (2) output aliasing / read-only calls - deep dump of the frame before MarshalBinary / MarshalText / Validate* / Set*, returned bytes scribbled over, frame must be unchanged (Set* may change the MIC only); (3) guard bytes - EncryptFRMPayload / EncryptFOpts and Marshal/Validate receive slices embedded in a canary arena for every length 0..64 x alignment 0..15, nothing outside [lo,hi) may change; (4) fresh vs. re-used target - for every decoder type decode(b2) into a value that previously decoded b1 must equal decode(b2) into a zero value (b1/b2 seeded, all-ones/all-zeros, valid encodings; in one case of seven the caller has also written to every exported field of the re-used value between the two decodes); (5) band instances - two GetConfig results per configuration, a seeded Add/Disable/Enable history on one, snapshot and getters of the other unchanged (both creation orders); (6) -race binary: goroutines on distinct values (decode, encrypt, MIC, marshal) while others register proprietary MAC commands and read the registry on 2-4 shared keys; registry operations recorded at the client boundary with one logical clock and checked with porcupine against a last-write register model per key. Distinct = (monitor, type or call site, input class) / (history, key, values observed).",
		Assumptions: []string{
			"'all interleavings' is out of reach: the evidence reports the overlapping operation pairs, histories and race-detector runs actually observed",
			"porcupine v1.3.0 decides linearizability of the recorded histories; a checker timeout would be reported as inconclusive",
		},
		MinEvals: 1000,
		Run:      runC10,
		RunRace:  runC10Race,
	})
}

// c10Decoder describes one decode target for monitors 1 and 4.
type c10Decoder struct {
	name   string
	newv   func() interface{}
	dec    func(v interface{}, b []byte) error
	inputs func(r *core.RNG) []byte
}

func sized(ns ...int) func(r *core.RNG) []byte {
	return func(r *core.RNG) []byte {
		n := ns[r.Intn(len(ns))]
		switch r.Intn(4) {
		case 0:
			return bytes.Repeat([]byte{0xff}, n)
		case 1:
			return make([]byte, n)
		}
		return r.Bytes(n)
	}
}

func c10Decoders() []c10Decoder {
	var out []c10Decoder
	add := func(name string, newv func() interface{}, dec func(v interface{}, b []byte) error, in func(r *core.RNG) []byte) {
		out = append(out, c10Decoder{name, newv, dec, in})
	}
	add("lorawan.PHYPayload", func() interface{} { return &lorawan.PHYPayload{} },
		func(v interface{}, b []byte) error { return v.(*lorawan.PHYPayload).UnmarshalBinary(b) },
		func(r *core.RNG) []byte { return validFrameBytes(r, r.Intn(8)) })
	for _, up := range []bool{true, false} {
		up := up
		d := "/down"
		if up {
			d = "/up"
		}
		add("lorawan.MACPayload"+d, func() interface{} { return &lorawan.MACPayload{} },
			func(v interface{}, b []byte) error { return v.(*lorawan.MACPayload).UnmarshalBinary(up, b) },
			func(r *core.RNG) []byte {
				mt := 3
				if up {
					mt = 2
				}
				b := validFrameBytes(r, mt)
				return b[1 : len(b)-4]
			})
		add("lorawan.FHDR"+d, func() interface{} { return &lorawan.FHDR{} },
			func(v interface{}, b []byte) error { return v.(*lorawan.FHDR).UnmarshalBinary(up, b) },
			func(r *core.RNG) []byte { return r.Bytes(7 + r.Intn(16)*r.Intn(2)) })
		add("lorawan.MACCommand"+d, func() interface{} { return &lorawan.MACCommand{} },
			func(v interface{}, b []byte) error { return v.(*lorawan.MACCommand).UnmarshalBinary(up, b) },
			func(r *core.RNG) []byte {
				if r.Chance(1, 5) {
					return append([]byte{0xF0}, r.Bytes(3)...) // registered proprietary, see c10Setup
				}
				_, b := genMACCommand(r, up, 6)
				return b
			})
		for cid, ctor := range macCtor[up] {
			ctor := ctor
			t := reflect.TypeOf(ctor()).Elem()
			sz := 0
			for _, l := range macLayoutSizes(up, cid) {
				sz = l
			}
			add("lorawan."+t.Name(), func() interface{} { return ctor() },
				func(v interface{}, b []byte) error { return v.(lorawan.MACCommandPayload).UnmarshalBinary(b) }, sized(sz))
		}
	}
	add("lorawan.ProprietaryMACCommandPayload", func() interface{} { return &lorawan.ProprietaryMACCommandPayload{} },
		func(v interface{}, b []byte) error {
			return v.(*lorawan.ProprietaryMACCommandPayload).UnmarshalBinary(b)
		}, sized(0, 1, 4, 9))
	add("lorawan.ChMask", func() interface{} { return &lorawan.ChMask{} },
		func(v interface{}, b []byte) error { return v.(*lorawan.ChMask).UnmarshalBinary(b) }, sized(2))
	add("lorawan.DLSettings", func() interface{} { return &lorawan.DLSettings{} },
		func(v interface{}, b []byte) error { return v.(*lorawan.DLSettings).UnmarshalBinary(b) }, sized(1))
	add("lorawan.Redundancy", func() interface{} { return &lorawan.Redundancy{} },
		func(v interface{}, b []byte) error { return v.(*lorawan.Redundancy).UnmarshalBinary(b) }, sized(1))
	add("lorawan.FCtrl", func() interface{} { return &lorawan.FCtrl{} },
		func(v interface{}, b []byte) error { return v.(*lorawan.FCtrl).UnmarshalBinary(b) }, sized(1))
	add("lorawan.DataPayload", func() interface{} { return &lorawan.DataPayload{} },
		func(v interface{}, b []byte) error { return v.(*lorawan.DataPayload).UnmarshalBinary(true, b) }, sized(0, 1, 7, 30))
	add("lorawan.JoinRequestPayload", func() interface{} { return &lorawan.JoinRequestPayload{} },
		func(v interface{}, b []byte) error { return v.(*lorawan.JoinRequestPayload).UnmarshalBinary(true, b) }, sized(18))
	add("lorawan.RejoinRequestType02Payload", func() interface{} { return &lorawan.RejoinRequestType02Payload{} },
		func(v interface{}, b []byte) error {
			return v.(*lorawan.RejoinRequestType02Payload).UnmarshalBinary(true, b)
		}, sized(14))
	add("lorawan.RejoinRequestType1Payload", func() interface{} { return &lorawan.RejoinRequestType1Payload{} },
		func(v interface{}, b []byte) error {
			return v.(*lorawan.RejoinRequestType1Payload).UnmarshalBinary(true, b)
		}, sized(19))
	add("lorawan.JoinAcceptPayload", func() interface{} { return &lorawan.JoinAcceptPayload{} },
		func(v interface{}, b []byte) error { return v.(*lorawan.JoinAcceptPayload).UnmarshalBinary(false, b) },
		func(r *core.RNG) []byte {
			b := sized(12, 28)(r)
			if len(b) == 28 {
				b[27] = byte(r.Intn(2))
			}
			return b
		})
	add("lorawan.CFList", func() interface{} { return &lorawan.CFList{} },
		func(v interface{}, b []byte) error { return v.(*lorawan.CFList).UnmarshalBinary(b) },
		func(r *core.RNG) []byte { b := sized(16)(r); b[15] = byte(r.Intn(2)); return b })
	add("lorawan.CFListChannelPayload", func() interface{} { return &lorawan.CFListChannelPayload{} },
		func(v interface{}, b []byte) error {
			return v.(*lorawan.CFListChannelPayload).UnmarshalBinary(false, b)
		}, sized(0, 3, 6, 9, 15))
	add("lorawan.CFListChannelMaskPayload", func() interface{} { return &lorawan.CFListChannelMaskPayload{} },
		func(v interface{}, b []byte) error {
			return v.(*lorawan.CFListChannelMaskPayload).UnmarshalBinary(false, b)
		}, sized(0, 2, 4, 10, 14, 15))

	// application layer
	appIn := func(r *core.RNG) []byte {
		b := sized(1, 2, 5, 6, 11, 30)(r)
		if r.Bool() {
			b[0] = byte(r.Intn(9))
		}
		return b
	}
	for _, up := range []bool{true, false} {
		up := up
		d := "/down"
		if up {
			d = "/up"
		}
		add("clocksync.Command"+d, func() interface{} { return &clocksync.Command{} }, func(v interface{}, b []byte) error { return v.(*clocksync.Command).UnmarshalBinary(up, b) }, appIn)
		add("clocksync.Commands"+d, func() interface{} { return &clocksync.Commands{} }, func(v interface{}, b []byte) error { return v.(*clocksync.Commands).UnmarshalBinary(up, b) }, appIn)
		add("multicastsetup.Command"+d, func() interface{} { return &multicastsetup.Command{} }, func(v interface{}, b []byte) error { return v.(*multicastsetup.Command).UnmarshalBinary(up, b) }, appIn)
		add("multicastsetup.Commands"+d, func() interface{} { return &multicastsetup.Commands{} }, func(v interface{}, b []byte) error { return v.(*multicastsetup.Commands).UnmarshalBinary(up, b) }, appIn)
		add("fragmentation.Command"+d, func() interface{} { return &fragmentation.Command{} }, func(v interface{}, b []byte) error { return v.(*fragmentation.Command).UnmarshalBinary(up, b) }, appIn)
		add("fragmentation.Commands"+d, func() interface{} { return &fragmentation.Commands{} }, func(v interface{}, b []byte) error { return v.(*fragmentation.Commands).UnmarshalBinary(up, b) }, appIn)
		add("firmwaremanagement.Command"+d, func() interface{} { return &firmwaremanagement.Command{} }, func(v interface{}, b []byte) error { return v.(*firmwaremanagement.Command).UnmarshalBinary(up, b) }, appIn)
		add("firmwaremanagement.Commands"+d, func() interface{} { return &firmwaremanagement.Commands{} }, func(v interface{}, b []byte) error { return v.(*firmwaremanagement.Commands).UnmarshalBinary(up, b) }, appIn)
		for cid := 0; cid < 10; cid++ {
			if p, err := clocksync.GetCommandPayload(up, clocksync.CID(cid)); err == nil {
				t := reflect.TypeOf(p).Elem()
				add("clocksync."+t.Name(), func() interface{} { return reflect.New(t).Interface() }, func(v interface{}, b []byte) error { return v.(clocksync.CommandPayload).UnmarshalBinary(b) }, sized(p.Size(), p.Size()+3, 12))
			}
			if p, err := multicastsetup.GetCommandPayload(up, multicastsetup.CID(cid)); err == nil {
				t := reflect.TypeOf(p).Elem()
				add("multicastsetup."+t.Name(), func() interface{} { return reflect.New(t).Interface() }, func(v interface{}, b []byte) error { return v.(multicastsetup.CommandPayload).UnmarshalBinary(b) }, sized(p.Size(), 1, 4, 21, 30))
			}
			if p, err := fragmentation.GetCommandPayload(up, fragmentation.CID(cid)); err == nil {
				t := reflect.TypeOf(p).Elem()
				add("fragmentation."+t.Name(), func() interface{} { return reflect.New(t).Interface() }, func(v interface{}, b []byte) error { return v.(fragmentation.CommandPayload).UnmarshalBinary(b) }, sized(p.Size(), p.Size()+3, 12))
			}
			if p, err := firmwaremanagement.GetCommandPayload(up, firmwaremanagement.CID(cid)); err == nil {
				t := reflect.TypeOf(p).Elem()
				add("firmwaremanagement."+t.Name(), func() interface{} { return reflect.New(t).Interface() }, func(v interface{}, b []byte) error { return v.(firmwaremanagement.CommandPayload).UnmarshalBinary(b) }, sized(p.Size(), 1, 5, 9))
			}
		}
	}
	// dedupe by name (uplink/downlink MAC payload types are distinct anyway)
	seen := map[string]bool{}
	var uniq []c10Decoder
	for _, d := range out {
		if !seen[d.name] {
			seen[d.name] = true
			uniq = append(uniq, d)
		}
	}
	return uniq
}

func macLayoutSizes(up bool, cid byte) []int {
	// size per spec table (kept tiny to avoid importing spec just for this)
	pl := macCtor[up][cid]()
	b, err := pl.MarshalBinary()
	if err != nil {
		return []int{1}
	}
	return []int{len(b)}
}

func c10Setup() {
	lorawan.VerifResetProprietary()
	lorawan.RegisterProprietaryMACCommand(true, 0xF0, 3)
	lorawan.RegisterProprietaryMACCommand(false, 0xF0, 3)
}

// ---- monitor 1: input aliasing
func c10InputAlias(c *core.Ctx, d c10Decoder, r *core.RNG) {
	in := d.inputs(r)
	pre, post := r.Intn(9), r.Intn(20)
	arena := bytes.Repeat([]byte{0xC5}, pre+len(in)+post) // a filler no decoder writes by accident (0x00 is what append(x, 0) leaves behind)
	copy(arena[pre:], in)
	B := arena[pre : pre+len(in)] // sub-slice with spare capacity
	v, ref := d.newv(), d.newv()
	var e1, e2 error
	c.Eval(2)
	if p, msg := core.Guard(func() { e1 = d.dec(v, B) }); p {
		c.Violate("C10|input-alias|panic|"+d.name, "%s", short(msg, 300))
		return
	}
	core.Guard(func() { e2 = d.dec(ref, append([]byte{}, in...)) })
	// the buffer stays the caller's, whether the decode succeeded or not
	if !bytes.Equal(B, in) || !bytes.Equal(arena[:pre], bytes.Repeat([]byte{0xC5}, pre)) || !bytes.Equal(arena[pre+len(in):], bytes.Repeat([]byte{0xC5}, post)) {
		c.Violate("C10|input-modified|"+d.name, "%s changed the buffer it was decoded from (or the bytes around it): %x -> %x", d.name, in, B)
		return
	}
	if e1 != nil || e2 != nil {
		return
	}
	for i := range arena {
		arena[i] = 0xEE
	}
	if a, b := core.Dump(v), core.Dump(ref); a != b {
		c.Violate("C10|input-alias|"+d.name, "%s decoded from a buffer changes when the caller overwrites that buffer:\n now      %s\n pristine %s", d.name, short(a, 500), short(b, 500))
	}
	c.Shape("alias", d.name, len(in) > 8)
}

// ---- monitor 4: fresh vs re-used decode target
func c10Stale(c *core.Ctx, d c10Decoder, r *core.RNG, mode int) {
	b1, b2 := d.inputs(r), d.inputs(r)
	switch mode % 4 {
	case 1:
		for i := range b1 {
			b1[i] = 0xff
		}
		for i := range b2 {
			b2[i] = 0
		}
	case 2:
		for i := range b1 {
			b1[i] = 0xff
		}
	case 3:
		if len(b2) > 0 && strings.Contains(d.name, "Command") {
			b2 = b2[:1] // a command without payload after one with payload
		}
	}
	if strings.HasPrefix(d.name, "lorawan.PHYPayload") && mode%2 == 1 {
		b1 = validFrameBytes(r, 2+r.Intn(4))
		b2 = append([]byte{b1[0]}, r.Bytes(7)...) // header-only frame of the same MType
		b2[5] &= 0xf0
		b2 = append(b2, r.Bytes(4)...)
	}
	if strings.HasPrefix(d.name, "lorawan.JoinAcceptPayload") && mode%2 == 1 {
		b1 = append(r.Bytes(27), byte(r.Intn(2)))
		b2 = r.Bytes(12)
	}
	reused, fresh := d.newv(), d.newv()
	if mode%5 == 4 {
		// a value that has been through several decodes already
		for k := 1 + r.Intn(4); k > 0; k-- {
			core.Guard(func() { d.dec(reused, d.inputs(r)) })
		}
	}
	var e0, e1, e2 error
	c.Eval(3)
	if mode%8 >= 6 && len(b1) > 1 {
		// the earlier use of the value is a decode that failed half-way (truncated input)
		b1 = b1[:1+r.Intn(len(b1)-1)]
	}
	if p, _ := core.Guard(func() { e0 = d.dec(reused, append([]byte{}, b1...)) }); p {
		return
	}
	_ = e0 // a failed first decode is an earlier use like any other
	if mode%7 == 5 {
		// the earlier use includes the caller writing to the value's exported fields (the full
		// 32-bit FCnt before a MIC validation, a flag, a payload): every number inverted, every
		// flag flipped. A decode replaces all of it.
		core.Guard(func() { core.Scribble(reused) })
	}
	// a caller that kept the first result by value (kept := *v) before decoding the next input
	// into the same variable: what it kept is a decoded value like any other
	kept := reflect.New(reflect.TypeOf(reused).Elem())
	kept.Elem().Set(reflect.ValueOf(reused).Elem())
	keptBefore := core.Dump(kept.Interface())
	if p, msg := core.Guard(func() { e1 = d.dec(reused, append([]byte{}, b2...)) }); p {
		c.Violate("C10|stale|panic|"+d.name, "%s", short(msg, 300))
		return
	}
	if now := core.Dump(kept.Interface()); now != keptBefore {
		c.Violate("C10|kept-copy-changed|"+d.name, "a %s decoded from %x and kept by value changed when the same variable was used to decode %x (err=%v):\n kept before %s\n kept now    %s", d.name, b1, b2, e1, short(keptBefore, 400), short(now, 400))
	}
	core.Guard(func() { e2 = d.dec(fresh, append([]byte{}, b2...)) })
	if (e1 == nil) != (e2 == nil) {
		c.Violate("C10|stale|"+d.name, "decoding %x into a value that decoded %x before: err=%v, into a fresh value: err=%v", b2, b1, e1, e2)
		return
	}
	if e2 != nil {
		return
	}
	if a, b := core.Dump(reused), core.Dump(fresh); a != b {
		c.Violate("C10|stale|"+d.name, "decode(%x) into a value that decoded %x before differs from decoding into a fresh value:\n re-used %s\n fresh   %s", b2, b1, short(a, 400), short(b, 400))
	}
	c.Shape("stale", d.name, mode%4)
}

// ---- monitor 7: values decoded independently are independent
// Two values decoded from (copies of) the same bytes, then every exported leaf
// reachable from the first is overwritten through the value's own pointers and
// slices (a forwarder re-porting a frame, a server clearing a flag). The second
// value, and a value decoded afterwards, must still be what the bytes say.
func c10Independent(c *core.Ctx, d c10Decoder, r *core.RNG) {
	b := d.inputs(r)
	v1, v2 := d.newv(), d.newv()
	var e1, e2 error
	c.Eval(3)
	if p, _ := core.Guard(func() { e1 = d.dec(v1, append([]byte{}, b...)); e2 = d.dec(v2, append([]byte{}, b...)) }); p || e1 != nil || e2 != nil {
		return
	}
	snap := core.Dump(v2)
	if p, msg := core.Guard(func() { core.Scribble(v1) }); p {
		c.Note("scribble walker failed on " + d.name + ": " + short(msg, 120))
		return
	}
	if now := core.Dump(v2); now != snap {
		c.Violate("C10|shared-between-decoded-values|"+d.name, "two %s values decoded independently from %x: overwriting the fields of one changed the other\n before %s\n after  %s", d.name, b, short(snap, 400), short(now, 400))
		return
	}
	v3 := d.newv()
	if p, _ := core.Guard(func() { e1 = d.dec(v3, append([]byte{}, b...)) }); p || e1 != nil {
		c.Violate("C10|shared-between-decoded-values|"+d.name, "decoding %x again after another decoded value was modified: err=%v", b, e1)
		return
	}
	if now := core.Dump(v3); now != snap {
		c.Violate("C10|shared-between-decoded-values|"+d.name, "a %s decoded from %x after another decoded value had been modified differs from the one decoded before\n before %s\n after  %s", d.name, b, short(snap, 400), short(now, 400))
	}
	c.Shape("independent", d.name)
}

// ---- monitor 2: read-only calls and output aliasing
func c10ReadOnly(c *core.Ctx, r *core.RNG) {
	d := genDataCase(r, anyData())
	phy := d.Lib()
	r.Fill(phy.MIC[:])
	k := lorawan.AES128Key(key16(r))
	up := d.Spec.Uplink()
	snap := core.Dump(phy)
	calls := []struct {
		name string
		f    func() []byte
	}{
		{"MarshalBinary", func() []byte { b, _ := phy.MarshalBinary(); return b }},
		{"MarshalText", func() []byte { b, _ := phy.MarshalText(); return b }},
		{"MarshalJSON", func() []byte { b, _ := phy.MarshalJSON(); return b }},
		{"ValidateUplinkDataMIC", func() []byte { phy.ValidateUplinkDataMIC(lorawan.LoRaWAN1_1, 7, 1, 2, k, k); return nil }},
		{"ValidateUplinkDataMICF", func() []byte { phy.ValidateUplinkDataMICF(k); return nil }},
		{"ValidateDownlinkDataMIC", func() []byte { phy.ValidateDownlinkDataMIC(lorawan.LoRaWAN1_1, 7, k); return nil }},
		{"MACPayload.MarshalBinary", func() []byte { b, _ := phy.MACPayload.MarshalBinary(); return b }},
		{"FHDR.MarshalBinary", func() []byte { b, _ := phy.MACPayload.(*lorawan.MACPayload).FHDR.MarshalBinary(); return b }},
	}
	// small pieces whose encoders / accessors hand out byte slices too
	mpl := phy.MACPayload.(*lorawan.MACPayload)
	nid := lorawan.NetID{byte(r.Intn(2)) << 5, 0, byte(r.Intn(64))}
	calls = append(calls, []struct {
		name string
		f    func() []byte
	}{
		{"MHDR.MarshalBinary", func() []byte { b, _ := phy.MHDR.MarshalBinary(); return b }},
		{"FCtrl.MarshalBinary", func() []byte { b, _ := mpl.FHDR.FCtrl.MarshalBinary(); return b }},
		{"DevAddr.MarshalBinary", func() []byte { b, _ := mpl.FHDR.DevAddr.MarshalBinary(); return b }},
		{"DevAddr.MarshalText", func() []byte { b, _ := mpl.FHDR.DevAddr.MarshalText(); return b }},
		{"DevAddr.NwkID", func() []byte { return mpl.FHDR.DevAddr.NwkID() }},
		{"NetID.ID", func() []byte { return nid.ID() }},
		{"NetID.MarshalBinary", func() []byte { b, _ := nid.MarshalBinary(); return b }},
		{"NetID.MarshalText", func() []byte { b, _ := nid.MarshalText(); return b }},
		{"AES128Key.MarshalText", func() []byte { b, _ := k.MarshalText(); return b }},
		{"AES128Key.MarshalBinary", func() []byte { b, _ := k.MarshalBinary(); return b }},
		{"MIC.MarshalText", func() []byte { b, _ := phy.MIC.MarshalText(); return b }},
	}...)
	first := make([][]byte, len(calls))
	for ci, cl := range calls {
		var out []byte
		c.Eval(1)
		if p, msg := core.Guard(func() { out = cl.f() }); p {
			c.Violate("C10|readonly|panic|"+cl.name, "%s", short(msg, 300))
			continue
		}
		first[ci] = append([]byte{}, out...)
		for i := range out {
			out[i] ^= 0xA5
		}
		_ = append(out, 0xA5, 0xA5, 0xA5, 0xA5)
		if now := core.Dump(phy); now != snap {
			c.Violate("C10|readonly|"+cl.name, "frame changed by a read-only call (or through its returned bytes):\n before %s\n after  %s", short(snap, 400), short(now, 400))
			snap = now
		}
		c.Shape("readonly", cl.name, up)
	}
	// what was handed out was the caller's to overwrite: the same calls give the same bytes again
	for ci, cl := range calls {
		var out []byte
		if p, _ := core.Guard(func() { out = cl.f() }); p {
			continue
		}
		if !bytes.Equal(out, first[ci]) {
			c.Violate("C10|returned-bytes-shared|"+cl.name, "%s returned %x; after the caller overwrote the returned slices it returns %x", cl.name, first[ci], out)
		}
	}
	// Set* may only change the MIC
	before := phy
	before.MIC = lorawan.MIC{}
	s0 := core.Dump(before)
	c.Eval(1)
	if up {
		phy.SetUplinkDataMIC(lorawan.LoRaWAN1_1, 7, 1, 2, k, k)
	} else {
		phy.SetDownlinkDataMIC(lorawan.LoRaWAN1_1, 7, k)
	}
	after := phy
	after.MIC = lorawan.MIC{}
	if s1 := core.Dump(after); s1 != s0 {
		c.Violate("C10|readonly|SetDataMIC", "Set*DataMIC changed more than the MIC:\n before %s\n after  %s", short(s0, 400), short(s1, 400))
	}
	// join frames
	ja := genJoinAccept(r)
	if ja.CFList != nil && r.Chance(1, 3) {
		// a CFList whose type field was left at another value than its payload suggests (zero value,
		// RFU): whatever Marshal makes of it, it only inspects the frame
		ja.CFList.CFListType = lorawan.CFListType([]byte{0, 1, 2, 0xff}[r.Intn(4)])
	}
	jp := lorawan.PHYPayload{MHDR: lorawan.MHDR{MType: lorawan.JoinAccept}, MACPayload: ja}
	js := core.Dump(jp)
	c.Eval(3)
	jp.ValidateDownlinkJoinMIC(lorawan.JoinRequestType, lorawan.EUI64(eui(r)), 5, k)
	if b, err := jp.MarshalBinary(); err == nil {
		for i := range b {
			b[i] = 0
		}
	}
	if b, err := ja.MarshalBinary(); err == nil {
		for i := range b {
			b[i] = 0
		}
	}
	if now := core.Dump(jp); now != js {
		c.Violate("C10|readonly|joinaccept", "join-accept changed by Validate/Marshal:\n before %s\n after  %s", short(js, 300), short(now, 300))
	}
	// MAC command output aliasing (incl. proprietary payload bytes)
	mc := lorawan.MACCommand{CID: 0xF0, Payload: &lorawan.ProprietaryMACCommandPayload{Bytes: []byte{1, 2, 3}}}
	ms := core.Dump(mc)
	if b, err := mc.MarshalBinary(); err == nil {
		for i := range b {
			b[i] = 0x77
		}
	}
	if now := core.Dump(mc); now != ms {
		c.Violate("C10|readonly|MACCommand.MarshalBinary", "before %s after %s", ms, now)
	}
}

// ---- monitor 3: guard bytes
func c10Guards(c *core.Ctx, ln, align int, r *core.RNG) {
	const canary = 0x5A
	mk := func() (arena []byte, lo, hi int) {
		lo = 32 + align
		hi = lo + ln
		arena = make([]byte, hi+48)
		for i := range arena {
			arena[i] = canary
		}
		r.Fill(arena[lo:hi])
		return
	}
	chk := func(site string, arena []byte, lo, hi int) {
		for i := range arena {
			if (i < lo || i >= hi) && arena[i] != canary {
				c.Violate("C10|guard|"+site, "%s wrote outside the slice it was given: len=%d alignment=%d, byte at offset %+d (relative to the end of the slice) changed from %#x to %#x", site, ln, align, i-hi, canary, arena[i])
				return
			}
		}
	}
	k := lorawan.AES128Key(key16(r))
	var da lorawan.DevAddr
	r.Fill(da[:])
	// EncryptFRMPayload: slice with spare capacity on both sides
	arena, lo, hi := mk()
	c.Eval(1)
	if p, msg := core.Guard(func() { lorawan.EncryptFRMPayload(k, r.Bool(), da, r.U32(), arena[lo:hi]) }); p {
		c.Violate("C10|guard|panic|EncryptFRMPayload", "%s", short(msg, 200))
	}
	chk("EncryptFRMPayload", arena, lo, hi)
	// same, but capacity cut at hi (three-index slice): must not matter
	arena, lo, hi = mk()
	core.Guard(func() { lorawan.EncryptFRMPayload(k, r.Bool(), da, r.U32(), arena[lo:hi:hi]) })
	chk("EncryptFRMPayload(cap=len)", arena, lo, hi)
	if ln <= 15 {
		arena, lo, hi = mk()
		c.Eval(1)
		core.Guard(func() { lorawan.EncryptFOpts(k, r.Bool(), r.Bool(), da, r.U32(), arena[lo:hi]) })
		chk("EncryptFOpts", arena, lo, hi)
	}
	// frame methods on payloads living inside an arena
	arena, lo, hi = mk()
	port := uint8(1 + r.Intn(200))
	phy := lorawan.PHYPayload{MHDR: lorawan.MHDR{MType: lorawan.UnconfirmedDataUp}, MACPayload: &lorawan.MACPayload{FPort: &port, FRMPayload: []lorawan.Payload{&lorawan.DataPayload{Bytes: arena[lo:hi]}}}}
	before := append([]byte{}, arena...)
	c.Eval(4)
	core.Guard(func() {
		phy.MarshalBinary()
		phy.ValidateUplinkDataMIC(lorawan.LoRaWAN1_0, 0, 0, 0, k, k)
		phy.SetUplinkDataMIC(lorawan.LoRaWAN1_1, 1, 2, 3, k, k)
		phy.MarshalText()
	})
	if !bytes.Equal(before, arena) {
		c.Violate("C10|guard|Marshal/Validate", "Marshal/Validate/SetMIC changed the caller's payload buffer (len=%d align=%d)", ln, align)
	}
	// EncryptFRMPayload method must not write outside the payload slice either, must leave the
	// caller's plaintext buffer alone, and the encrypted frame must not alias that buffer
	core.Guard(func() { phy.EncryptFRMPayload(k) })
	chk("PHYPayload.EncryptFRMPayload", arena, lo, hi)
	if !bytes.Equal(before, arena) {
		c.Violate("C10|guard|PHYPayload.EncryptFRMPayload|caller-buffer-modified", "the method overwrote the caller's payload buffer (len=%d align=%d)", ln, align)
	} else {
		enc := core.Dump(phy)
		for i := range arena {
			arena[i] ^= 0x3C
		}
		if now := core.Dump(phy); now != enc {
			c.Violate("C10|guard|PHYPayload.EncryptFRMPayload|aliases-caller-buffer", "the encrypted frame changes when the caller re-uses its payload buffer (len=%d align=%d)", ln, align)
		}
	}
	c.ShapeHash(uint64(ln)<<8 | uint64(align))
}

// ---- monitor 5: band instances
func c10Bands(c *core.Ctx, cfg bandCfg, r *core.RNG, order int) {
	a, err1 := cfg.New()
	b, err2 := cfg.New()
	if err1 != nil || err2 != nil {
		return
	}
	if order == 1 {
		a, b = b, a
	}
	sb0, _ := band.VerifSnapshotOf(b)
	ref := core.Dump(sb0)
	getters := func(x band.Band) string {
		return fmt.Sprint(x.GetUplinkChannelIndices(), x.GetEnabledUplinkChannelIndices(), x.GetDisabledUplinkChannelIndices(), x.GetCustomUplinkChannelIndices(), x.GetEnabledUplinkDataRates(), core.Dump(x.GetCFList("1.0.3")))
	}
	g0 := getters(b)
	n := len(a.GetUplinkChannelIndices())
	var ops []string
	for s := 0; s < 12; s++ {
		switch r.Intn(3) {
		case 0:
			f := uint32(860000000 + r.Intn(1000)*100000)
			err := a.AddChannel(f, r.Intn(3), 3+r.Intn(3))
			ops = append(ops, fmt.Sprintf("Add(%d)=%v", f, err))
			if err == nil {
				n++
			}
		case 1:
			i := r.Intn(n)
			ops = append(ops, fmt.Sprintf("Disable(%d)=%v", i, a.DisableUplinkChannelIndex(i)))
		default:
			i := r.Intn(n)
			ops = append(ops, fmt.Sprintf("Enable(%d)=%v", i, a.EnableUplinkChannelIndex(i)))
		}
		c.Eval(1)
	}
	sb1, _ := band.VerifSnapshotOf(b)
	if now := core.Dump(sb1); now != ref || getters(b) != g0 {
		c.Violate("C10|band-shared-state|"+cfg.Name, "operations %v on one %s instance changed another instance obtained from a separate GetConfig call:\n before %s\n after  %s", ops, cfg.Name, short(g0, 300), short(getters(b), 300))
	}
	// a third instance created afterwards is pristine too
	fresh, _ := cfg.New()
	sf, _ := band.VerifSnapshotOf(fresh)
	if core.Dump(sf) != ref {
		c.Violate("C10|band-shared-state|"+cfg.Name, "an instance created after %v on another instance is not pristine", ops)
	}
	c.Shape("bands", cfg.String(), order)
}

// c10BandOrder runs first in a fresh worker process: every configuration is
// created once in a rotated order (and used a little), then again in the reverse
// order; a fresh instance must look the same no matter which other bands - of any
// name - were created or modified before it.
func c10BandOrder(c *core.Ctx) {
	if !c.Mine("band-order", int64(c.Batch)) {
		return
	}
	if !c.Replay {
		bandFingerprints(c, "band-tables")
	}
	cfgs := allBandCfgs()
	rot := (c.Batch * 7) % len(cfgs)
	order := append(append([]bandCfg{}, cfgs[rot:]...), cfgs[:rot]...)
	first := map[string]string{}
	for _, cfg := range order {
		b, err := cfg.New()
		if err != nil {
			continue
		}
		s, _ := band.VerifSnapshotOf(b)
		first[cfg.String()] = core.Dump(s)
		// use the instance: mutations must stay private to it
		b.AddChannel(s.UplinkChannels[0].Frequency+1600000, 0, 5)
		b.DisableUplinkChannelIndex(0)
		b.GetLinkADRReqPayloadsForEnabledUplinkChannelIndices([]int{0, 1})
		b.GetCFList("1.0.3")
		b.GetMaxPayloadSizeForDataRateIndex("1.0.2", "B", 0)
		c.Eval(1)
	}
	for i := len(order) - 1; i >= 0; i-- {
		cfg := order[i]
		b, err := cfg.New()
		if err != nil {
			continue
		}
		s, _ := band.VerifSnapshotOf(b)
		c.Eval(1)
		if now := core.Dump(s); now != first[cfg.String()] {
			c.Violate("C10|band-shared-state|creation-order|"+cfg.Name, "a fresh %s instance differs depending on which other bands were created before it in the process:\n first  %s\n later  %s", cfg, short(first[cfg.String()], 400), short(now, 400))
		}
		c.Shape("band-order", cfg.Name, c.Batch)
	}
}

func runC10(c *core.Ctx) {
	c10BandOrder(c)
	c10Setup()
	decs := c10Decoders()
	per := c.N(120, 100000)
	for di, d := range decs {
		for k := int64(0); k < per; k++ {
			idx := int64(di)*1000000 + k
			if c.Mine("alias", idx) {
				c10InputAlias(c, d, c.RNG("alias", idx))
			}
			if c.Mine("stale", idx) {
				c10Stale(c, d, c.RNG("stale", idx), int(k))
			}
			if c.Mine("independent", idx) {
				c10Independent(c, d, c.RNG("independent", idx))
			}
		}
	}
	if c.Batch == 0 {
		c.Res().Counters["max.decoder-types"] = int64(len(decs))
	}
	m := c.N(3000, 3000000)
	for i := int64(0); i < m; i++ {
		if c.Mine("readonly", i) {
			c10ReadOnly(c, c.RNG("readonly", i))
		}
	}
	reps := int(c.N(1, 400))
	for rep := 0; rep < reps; rep++ {
		for ln := 0; ln <= 64; ln++ {
			for al := 0; al < 16; al++ {
				idx := int64(rep)<<16 | int64(ln)<<4 | int64(al)
				if c.Mine("guards", idx) {
					c10Guards(c, ln, al, c.RNG("guards", idx))
				}
			}
		}
	}
	if !c.Replay {
		c.Exhaustive("guards: every length 0..64 x alignment 0..15")
	}
	cfgs := allBandCfgs()
	hist := c.N(6, 3000)
	for ci, cfg := range cfgs {
		for h := int64(0); h < hist; h++ {
			idx := int64(ci)<<20 | h
			if c.Mine("bands", idx) {
				c10Bands(c, cfg, c.RNG("bands", idx), int(h%2))
			}
		}
	}
	if c.WantSample("decoders") {
		var names []string
		for _, d := range decs {
			names = append(names, d.name)
		}
		c.Sample("decoders", names)
	}
	lorawan.VerifResetProprietary()
	_ = binary.BigEndian
}
