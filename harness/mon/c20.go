package mon

import (
	"fmt"
	"math"
	"math/big"
	"runtime"
	"sort"
	"sync"
	"sync/atomic"
	"time"

	"github.com/brocaar/lorawan"
	"github.com/brocaar/lorawan/airtime"
	"github.com/brocaar/lorawan/gps"

	"lwverif/core"
)

func init() {
	core.Register(&core.Property{
		ID:   "C20",
		Rule: "GPS: for each of the 18 leap seconds every instant L+{every second -40s..+40s, -1s-1ns,-1s,-1s+1ns,-500ms,-1ns,0,+1ns} and the corresponding GPS durations, plus seeded random instants 1980-01-06..2100 at ns resolution (quick 50k, thorough 2M), checked against an independent leap table (offset = number of insertions at or before the instant), for strict monotonicity on the sorted sample and for both round trips. Airtime: SF 5..12 x BW {125,250,500,812,1625} kHz x payload 0..255 x CR 1..4 x header x LDRO x preamble {0,8,64} (thorough: every preamble 0..64 = complete grid) against the AN1200.13 formula in exact rational arithmetic; symbol count exact, durations within the documented integer-ns truncation, monotone in payload. EIRP: nextafter neighbourhoods of the 16 table entries + 1M seeded float32 >= 8 (thorough: every float32 bit pattern from 8.0 to MaxFloat32) and all 256 index bytes. Distinct = (leap index, offset class) / (SF,BW,CR,H,DE,preamble) / EIRP index.",
		Assumptions: []string{
			"GPS-UTC leap seconds: the 18 IERS insertions 1981-07-01 .. 2017-01-01 (Bulletin C); none announced after 2017-01-01 for the modelled range",
			"Semtech AN1200.13 time-on-air formula with CRC on; library results are integer nanoseconds, truncation of < 1 ns per symbol is allowed",
			"TXParamSetupReq EIRP table of LoRaWAN 1.0.2+/1.1 §5.9: 8 10 12 13 14 16 18 20 21 24 26 27 29 30 33 36 dBm",
		},
		MinEvals: 1000,
		Run:      runC20,
	})
}

var gpsEpochUnix = time.Date(1980, 1, 6, 0, 0, 0, 0, time.UTC)

// instants at which GPS-UTC increases (00:00:00 UTC of these days)
var leapDays = []time.Time{
	time.Date(1981, 7, 1, 0, 0, 0, 0, time.UTC), time.Date(1982, 7, 1, 0, 0, 0, 0, time.UTC), time.Date(1983, 7, 1, 0, 0, 0, 0, time.UTC),
	time.Date(1985, 7, 1, 0, 0, 0, 0, time.UTC), time.Date(1988, 1, 1, 0, 0, 0, 0, time.UTC), time.Date(1990, 1, 1, 0, 0, 0, 0, time.UTC),
	time.Date(1991, 1, 1, 0, 0, 0, 0, time.UTC), time.Date(1992, 7, 1, 0, 0, 0, 0, time.UTC), time.Date(1993, 7, 1, 0, 0, 0, 0, time.UTC),
	time.Date(1994, 7, 1, 0, 0, 0, 0, time.UTC), time.Date(1996, 1, 1, 0, 0, 0, 0, time.UTC), time.Date(1997, 7, 1, 0, 0, 0, 0, time.UTC),
	time.Date(1999, 1, 1, 0, 0, 0, 0, time.UTC), time.Date(2006, 1, 1, 0, 0, 0, 0, time.UTC), time.Date(2009, 1, 1, 0, 0, 0, 0, time.UTC),
	time.Date(2012, 7, 1, 0, 0, 0, 0, time.UTC), time.Date(2015, 7, 1, 0, 0, 0, 0, time.UTC), time.Date(2017, 1, 1, 0, 0, 0, 0, time.UTC),
}

func gpsModelForward(t time.Time) time.Duration {
	n := 0
	for _, l := range leapDays {
		if !t.Before(l) {
			n++
		}
	}
	return t.Sub(gpsEpochUnix) + time.Duration(n)*time.Second
}

// gpsModelInverse: ok=false when d falls inside an inserted leap second.
func gpsModelInverse(d time.Duration) (time.Time, bool) {
	n := 0
	for i, l := range leapDays {
		g := l.Sub(gpsEpochUnix) + time.Duration(i+1)*time.Second // GPS duration at 00:00:00 after the insertion
		if d >= g {
			n++
		} else if d >= g-time.Second {
			return time.Time{}, false
		}
	}
	return gpsEpochUnix.Add(d - time.Duration(n)*time.Second), true
}

func leapKey(t time.Time) string {
	for _, l := range leapDays {
		if t.Before(l) && !t.Before(l.Add(-time.Second)) {
			return "last-utc-second-before-leap-" + l.Format("2006-01-02")
		}
	}
	return "other"
}

func c20GPSInstant(c *core.Ctx, t time.Time, tag string) time.Duration {
	var got time.Duration
	c.Eval(1)
	gt := gps.Time(t)
	if p, msg := core.Guard(func() { got = gt.TimeSinceGPSEpoch() }); p {
		c.Violate("C20|gps|panic", "%s", msg)
		return 0
	}
	want := gpsModelForward(t)
	if got != want {
		c.Violate("C20|gps|forward|"+leapKey(t), "TimeSinceGPSEpoch(%s) = %v, leap table says %v (offset %v)", t.Format(time.RFC3339Nano), got, want, want-t.Sub(gpsEpochUnix))
	}
	var back gps.Time
	c.Eval(1)
	core.Guard(func() { back = gps.NewTimeFromTimeSinceGPSEpoch(got) })
	if !time.Time(back).Equal(t) {
		c.Violate("C20|gps|roundtrip-utc|"+leapKey(t), "New(TimeSince(%s)) = %s", t.Format(time.RFC3339Nano), time.Time(back).Format(time.RFC3339Nano))
	}
	// an instant is the same instant in whatever time zone the time.Time value is expressed
	// (time.Now() on a server east or west of Greenwich)
	zi := int(uint64(t.UnixNano()) % uint64(len(c20Zones)))
	for k := 0; k < 2; k++ {
		z := c20Zones[(zi+k*5)%len(c20Zones)]
		var gz time.Duration
		c.Eval(1)
		gtz := gps.Time(t.In(z))
		core.Guard(func() { gz = gtz.TimeSinceGPSEpoch() })
		if gz != want {
			c.Violate("C20|gps|forward-in-zone|"+leapKey(t), "TimeSinceGPSEpoch(%s) = %v, but the same instant in UTC (%s) has %v", t.In(z).Format(time.RFC3339Nano), gz, t.Format(time.RFC3339Nano), want)
		}
	}
	return got
}

var c20Zones = []*time.Location{
	time.FixedZone("+14", 14*3600), time.FixedZone("-12", -12*3600), time.FixedZone("CET", 3600), time.FixedZone("EST", -5*3600),
	time.FixedZone("+0530", 5*3600+1800), time.FixedZone("-0930", -(9*3600 + 1800)), time.FixedZone("+0001", 60), time.FixedZone("-0001", -60),
	time.FixedZone("+1", 1), time.FixedZone("JST", 9*3600), time.FixedZone("+1245", 12*3600+2700),
}

func c20GPSDuration(c *core.Ctx, d time.Duration) {
	want, ok := gpsModelInverse(d)
	if !ok {
		c.Count("gps.durations-inside-leap-second-skipped", 1)
		return
	}
	var back gps.Time
	c.Eval(2)
	if p, msg := core.Guard(func() { back = gps.NewTimeFromTimeSinceGPSEpoch(d) }); p {
		c.Violate("C20|gps|panic", "%s", msg)
		return
	}
	if !time.Time(back).Equal(want) {
		c.Violate("C20|gps|inverse|"+leapKey(want), "NewTimeFromTimeSinceGPSEpoch(%v) = %s, leap table says %s", d, time.Time(back).Format(time.RFC3339Nano), want.Format(time.RFC3339Nano))
		return
	}
	if d2 := back.TimeSinceGPSEpoch(); d2 != d {
		c.Violate("C20|gps|roundtrip-gps|"+leapKey(want), "TimeSince(New(%v)) = %v", d, d2)
	}
}

func ceilDiv(a, b int64) int64 { // b > 0
	if a >= 0 {
		return (a + b - 1) / b
	}
	return -((-a) / b)
}

func c20Airtime(c *core.Ctx, sf, bw, cr, pre int, header, ldro bool) {
	h, de := int64(0), int64(0)
	if !header {
		h = 1
	}
	if ldro {
		de = 1
	}
	symExact := big.NewRat(int64(1)<<uint(sf)*1000000, int64(bw)) // ns
	symLib := airtime.CalculateLoRaSymbolDuration(sf, bw)
	c.Eval(1)
	// durations are whole nanoseconds: the formula's value may be cut off (as the library does) or rounded,
	// so every comparison allows the quantisation error in either direction
	if e := new(big.Rat).Sub(symExact, big.NewRat(int64(symLib), 1)); e.Abs(e).Cmp(big.NewRat(1, 1)) >= 0 {
		c.Violate(fmt.Sprintf("C20|airtime|symbol-duration|bw=%d", bw), "SF%d BW%d: symbol duration %v, exact %s ns", sf, bw, symLib, symExact.FloatString(3))
		return
	}
	preLib := airtime.CalculateLoRaPreambleDuration(symLib, pre)
	preExact := new(big.Rat).Mul(big.NewRat(int64(100*pre+425), 100), symExact)
	diff := new(big.Rat).Sub(preExact, big.NewRat(int64(preLib), 1))
	c.Eval(1)
	if diff.Abs(diff).Cmp(big.NewRat(int64(pre)+6, 1)) > 0 {
		c.Violate("C20|airtime|preamble", "SF%d BW%d preamble %d: %v vs exact %s ns", sf, bw, pre, preLib, preExact.FloatString(3))
	}
	var prev time.Duration
	for pl := 0; pl <= 255; pl++ {
		n := 8 + max64(ceilDiv(8*int64(pl)-4*int64(sf)+28+16-20*h, 4*(int64(sf)-2*de))*(int64(cr)+4), 0)
		got, err := airtime.CalculateLoRaPayloadSymbolNumber(pl, sf, airtime.CodingRate(cr), header, ldro)
		c.Eval(2)
		if err != nil || int64(got) != n {
			c.Violate(fmt.Sprintf("C20|airtime|symbol-count|sf=%d", sf), "PL=%d SF%d CR%d H=%d DE=%d: %d symbols (err %v), formula gives %d", pl, sf, cr, h, de, got, err, n)
			return
		}
		at, err := airtime.CalculateLoRaAirtime(pl, sf, bw, pre, airtime.CodingRate(cr), header, ldro)
		if err != nil {
			c.Violate("C20|airtime|error", "%v", err)
			return
		}
		if at2, e2 := airtime.CalculateLoRaAirtime(pl, sf, bw, pre, airtime.CodingRate(cr), header, ldro); e2 != nil || at2 != at {
			c.Violate("C20|airtime|second-identical-call-differs", "PL=%d SF%d BW%d: %v then %v (%v)", pl, sf, bw, at, at2, e2)
		}
		exact := new(big.Rat).Add(preExact, new(big.Rat).Mul(big.NewRat(n, 1), symExact))
		d := new(big.Rat).Sub(exact, big.NewRat(int64(at), 1))
		if d.Abs(d).Cmp(big.NewRat(int64(pre)+6+n, 1)) > 0 {
			c.Violate(fmt.Sprintf("C20|airtime|duration|bw=%d", bw), "PL=%d SF%d BW%d CR%d pre=%d H=%d DE=%d: %v (%d ns) vs exact %s ns", pl, sf, bw, cr, pre, h, de, at, int64(at), exact.FloatString(3))
			return
		}
		if pl > 0 && at < prev {
			c.Violate("C20|airtime|not-monotone", "PL=%d: %v < %v", pl, at, prev)
		}
		prev = at
	}
	c.ShapeHash(uint64(sf)<<40 | uint64(bw)<<24 | uint64(cr)<<16 | uint64(pre)<<4 | uint64(h)<<1 | uint64(de))
}

func max64(a, b int64) int64 {
	if a > b {
		return a
	}
	return b
}

var eirpSpec = []float32{8, 10, 12, 13, 14, 16, 18, 20, 21, 24, 26, 27, 29, 30, 33, 36}

func eirpModel(p float32) uint8 {
	idx := 0
	for i, e := range eirpSpec {
		if e <= p {
			idx = i
		}
	}
	return uint8(idx)
}

func c20EIRP(c *core.Ctx, p float32) {
	got := lorawan.GetTXParamSetupEIRPIndex(p)
	if want := eirpModel(p); got != want {
		c.Violate(fmt.Sprintf("C20|eirp|index|want=%d|got=%d", want, got), "GetTXParamSetupEIRPIndex(%v [bits %08x]) = %d, largest entry not exceeding it is index %d (%v dBm)", p, math.Float32bits(p), got, want, eirpSpec[want])
	}
}

func runC20(c *core.Ctx) {
	// which conversion a process uses first must not matter (lazily built tables): the workers take turns
	switch c.Batch % 4 {
	case 1:
		c20GPSDuration(c, 1167264018*time.Second) // 2017-01-01T00:00:00Z, the instant right after the last leap second
	case 2:
		c20Airtime(c, 12, 1625, 1, 8, true, false)
	case 3:
		c20EIRP(c, 36)
		c20GPSDuration(c, 315964800*time.Second)
	}
	// conversions of instants from different leap-second eras at the same time (several goroutines): each
	// result is judged by the model exactly as in the sequential monitors
	if c.Whole("gps-concurrent") || c.Batch%5 == 2 {
		var wg sync.WaitGroup
		var bad atomic.Value
		for g := 0; g < 6; g++ {
			wg.Add(1)
			go func(rr *core.RNG) {
				defer wg.Done()
				for i := 0; i < 4000; i++ {
					l := leapDays[rr.Intn(len(leapDays))]
					t := l.Add(time.Duration(rr.Intn(200*86400)-100*86400) * time.Second).Add(time.Duration(rr.Intn(1e9)))
					gt := gps.Time(t)
					got := gt.TimeSinceGPSEpoch()
					if want := gpsModelForward(t); got != want {
						bad.Store(fmt.Sprintf("TimeSinceGPSEpoch(%s) = %v while other goroutines convert instants of other eras; leap table says %v", t.Format(time.RFC3339Nano), got, want))
						return
					}
					if back := gps.NewTimeFromTimeSinceGPSEpoch(got); !time.Time(back).Equal(t) {
						bad.Store(fmt.Sprintf("New(TimeSince(%s)) = %s under concurrent use", t.Format(time.RFC3339Nano), time.Time(back).Format(time.RFC3339Nano)))
						return
					}
					if i%64 == 0 {
						runtime.Gosched()
					}
				}
			}(c.RNG("gps-concurrent", int64(c.Batch*8+g)))
		}
		wg.Wait()
		c.Eval(6 * 4000 * 2)
		if m := bad.Load(); m != nil {
			c.Violate("C20|gps|concurrent-use", "%s", m.(string))
		}
		c.Shape("gps-concurrent", runtime.GOMAXPROCS(0))
	}
	// ------------------------------------------------ GPS
	var offs []time.Duration
	for s := -40; s < -2; s++ { // every second of the minute before the insertion (windows of "n seconds before a leap" bugs)
		offs = append(offs, time.Duration(s)*time.Second, time.Duration(s)*time.Second+time.Duration(7919*(s+50))*time.Microsecond)
	}
	offs = append(offs, -2*time.Second, -time.Second-1, -time.Second, -time.Second+1, -500*time.Millisecond, -1, 0, 1, time.Second, 2*time.Second)
	for s := 3; s <= 40; s++ {
		offs = append(offs, time.Duration(s)*time.Second)
	}
	for li, l := range leapDays {
		if !c.Mine("gps-leaps", int64(li)) {
			continue
		}
		var prevT time.Time
		var prevD time.Duration
		for oi, o := range offs {
			t := l.Add(o)
			d := c20GPSInstant(c, t, "leap")
			if oi > 0 && !(d > prevD) {
				c.Violate("C20|gps|not-increasing|"+leapKey(t), "%s -> %v but %s -> %v", prevT.Format(time.RFC3339Nano), prevD, t.Format(time.RFC3339Nano), d)
			}
			prevT, prevD = t, d
			// GPS durations around the insertion, in GPS time
			g := l.Sub(gpsEpochUnix) + time.Duration(li+1)*time.Second
			c20GPSDuration(c, g+o)
			c20GPSDuration(c, g-time.Second+o)
			c.Shape("gps-leap", li, oi)
		}
		if c.WantSample("gps-leaps") {
			c.Sample("gps-leaps", map[string]interface{}{"utc": l.Add(-500 * time.Millisecond).Format(time.RFC3339Nano), "model_gps_seconds": gpsModelForward(l.Add(-500 * time.Millisecond)).Seconds()})
		}
	}
	// extreme values: instants before the GPS epoch (1980-01-01 .. 01-06), negative durations, durations beyond 2^32 s
	if c.Whole("gps-extremes") {
		r := c.RNG("gps-extremes", 0)
		start := time.Date(1980, 1, 1, 0, 0, 0, 0, time.UTC)
		for k := 0; k < 4000; k++ {
			t := start.Add(time.Duration(r.U64() % uint64(6*24*time.Hour)))
			c20GPSInstant(c, t, "pre-epoch")
			c20GPSDuration(c, -time.Duration(r.U64()%uint64(10*24*time.Hour)))
			c20GPSDuration(c, time.Duration(1<<32)*time.Second+time.Duration(int64(r.U64()%uint64(40*time.Second)))-20*time.Second)
			c20GPSDuration(c, time.Duration(r.U64()%uint64(1<<33))*time.Second)
		}
		for _, d := range []time.Duration{-1, -time.Second, -18 * time.Second, -19 * time.Second, time.Duration(1<<32-1) * time.Second, time.Duration(1<<32) * time.Second, time.Duration(1<<32+1) * time.Second, 1<<62 - 1} {
			c20GPSDuration(c, d)
		}
		c.Shape("gps-extremes")
	}
	// calendar and GPS landmarks that are not leap seconds: GPS week-number rollovers (every 1024
	// weeks), the uint32-seconds rollover (2116), year / century / leap-day boundaries, the Unix
	// 2^31 second, the day of each leap-second *announcement-free* June 30 / December 31
	if c.Whole("gps-landmarks") {
		var marks []time.Time
		for k := 1; k <= 5; k++ {
			marks = append(marks, gpsEpochUnix.Add(time.Duration(k)*1024*7*24*time.Hour))
		}
		marks = append(marks, time.Unix(1<<31, 0).UTC(), time.Unix(1<<31-1, 0).UTC(), gpsEpochUnix, gpsEpochUnix.Add(time.Duration(1<<32)*time.Second))
		for y := 1980; y <= 2101; y++ {
			marks = append(marks, time.Date(y, 1, 1, 0, 0, 0, 0, time.UTC), time.Date(y, 7, 1, 0, 0, 0, 0, time.UTC), time.Date(y, 3, 1, 0, 0, 0, 0, time.UTC))
		}
		for _, m := range marks {
			var prevD time.Duration
			for k, o := range []time.Duration{-19 * time.Second, -18 * time.Second, -2 * time.Second, -time.Second, -1, 0, 1, time.Second, 2 * time.Second, 18 * time.Second, 19 * time.Second} {
				t := m.Add(o)
				d := c20GPSInstant(c, t, "landmark")
				if k > 0 && !(d > prevD) {
					c.Violate("C20|gps|not-increasing|"+leapKey(t), "around %s: %v then %v", m.Format(time.RFC3339), prevD, d)
				}
				prevD = d
				c20GPSDuration(c, gpsModelForward(m)+o)
			}
		}
		c.Shape("gps-landmarks", len(marks))
	}
	n := c.N(50000, 40000000)
	span := time.Date(2100, 1, 1, 0, 0, 0, 0, time.UTC).Sub(gpsEpochUnix)
	chunk := int64(1000)
	for b := int64(0); b < n/chunk; b++ {
		if !c.Mine("gps-random", b) {
			continue
		}
		r := c.RNG("gps-random", b)
		ts := make([]time.Time, chunk)
		for i := range ts {
			ts[i] = gpsEpochUnix.Add(time.Duration(r.U64() % uint64(span)))
			if i%10 == 0 { // concentrate some near leaps
				ts[i] = leapDays[r.Intn(len(leapDays))].Add(time.Duration(int64(r.U64()%uint64(6*time.Second))) - 3*time.Second)
			}
		}
		sort.Slice(ts, func(i, j int) bool { return ts[i].Before(ts[j]) })
		var pd time.Duration
		for i, t := range ts {
			d := c20GPSInstant(c, t, "random")
			if i > 0 && ts[i].After(ts[i-1]) && !(d > pd) {
				c.Violate("C20|gps|not-increasing|"+leapKey(t), "%s -> %v not above %s -> %v", t.Format(time.RFC3339Nano), d, ts[i-1].Format(time.RFC3339Nano), pd)
			}
			pd = d
			c20GPSDuration(c, time.Duration(r.U64()%uint64(span)))
		}
		c.Shape("gps-random-chunk", b%64)
	}

	// ------------------------------------------------ airtime
	pres := []int{0, 8, 64}
	if c.Thorough() {
		pres = nil
		for p := 0; p <= 64; p++ {
			pres = append(pres, p)
		}
		c.Exhaustive("airtime grid SF5..12 x BW x CR x H x DE x preamble 0..64 x payload 0..255")
	}
	idx := int64(0)
	for sf := 5; sf <= 12; sf++ {
		for _, bw := range []int{125, 250, 500, 812, 1625} {
			for cr := 1; cr <= 4; cr++ {
				for _, pre := range pres {
					for hd := 0; hd < 4; hd++ {
						idx++
						if !c.Mine("airtime", idx) {
							continue
						}
						c20Airtime(c, sf, bw, cr, pre, hd&1 == 1, hd&2 == 2)
						if c.WantSample("airtime") {
							at, _ := airtime.CalculateLoRaAirtime(51, sf, bw, pre, airtime.CodingRate(cr), hd&1 == 1, hd&2 == 2)
							c.Sample("airtime", map[string]interface{}{"payload": 51, "sf": sf, "bw_khz": bw, "cr": cr, "preamble": pre, "header": hd&1 == 1, "ldro": hd&2 == 2, "airtime_ns": int64(at)})
						}
					}
				}
			}
		}
	}
	if c.Whole("airtime-cr") {
		// coding rates other than 1..4 are outside the property: refused (as the library does) or not, the
		// call must come back
		for _, cr := range []int{0, 5, -1, 100} {
			c.Eval(2)
			if p, msg := core.Guard(func() {
				_, _ = airtime.CalculateLoRaPayloadSymbolNumber(10, 7, airtime.CodingRate(cr), true, false)
				_, _ = airtime.CalculateLoRaAirtime(10, 7, 125, 8, airtime.CodingRate(cr), true, false)
			}); p {
				c.Violate("C20|airtime|bad-cr-panic", "coding rate %d: %s", cr, msg)
			}
		}
	}

	// ------------------------------------------------ EIRP
	if c.Whole("eirp-table") {
		for i := 0; i < 256; i++ {
			v, err := lorawan.GetTXParamSetupEIRP(uint8(i))
			c.Eval(1)
			if i < 16 {
				if err != nil || v != eirpSpec[i] {
					c.Violate(fmt.Sprintf("C20|eirp|table|index=%d", i), "GetTXParamSetupEIRP(%d) = %v err %v, spec %v", i, v, err, eirpSpec[i])
				}
			}
			// an index byte above 15 has no table entry (the field is 4 bits wide): an error, as in the
			// library, or anything else that returns - the property defines no value for it
			c.Shape("eirp-index", i)
		}
		for i, e := range eirpSpec {
			x := e
			for k := 0; k < 4; k++ {
				x = math.Nextafter32(x, -1)
			}
			for k := 0; k < 9; k++ {
				if x >= 8 {
					c.Eval(1)
					c20EIRP(c, x)
					if got, err := lorawan.GetTXParamSetupEIRP(lorawan.GetTXParamSetupEIRPIndex(x)); err != nil || got > x {
						c.Violate("C20|eirp|decode-exceeds", "power %v codes to %v", x, got)
					}
				}
				x = math.Nextafter32(x, 1000)
			}
			c.Shape("eirp-entry", i)
		}
		for _, p := range []float32{8, 36, 37, 100, 1e9, math.MaxFloat32, 8.0000001, 35.999996} {
			c.Eval(1)
			c20EIRP(c, p)
		}
	}
	if c.Thorough() {
		lo, hi := uint64(math.Float32bits(8)), uint64(math.Float32bits(math.MaxFloat32))
		const blk = 1 << 20
		c.ProgressStride(1)
		for b := lo / blk; b <= hi/blk; b++ {
			if !c.Mine("eirp-all-float32", int64(b)) {
				continue
			}
			for bits := b * blk; bits < (b+1)*blk; bits++ {
				if bits < lo || bits > hi {
					continue
				}
				p := math.Float32frombits(uint32(bits))
				if got, want := lorawan.GetTXParamSetupEIRPIndex(p), eirpModel(p); got != want {
					c.Violate(fmt.Sprintf("C20|eirp|index|want=%d|got=%d", want, got), "power %v (bits %08x): index %d want %d", p, bits, got, want)
				}
			}
			c.Eval(blk)
		}
		c.Exhaustive("eirp: every float32 from 8.0 to MaxFloat32")
	} else {
		m := int64(1000000)
		const blk = 10000
		for b := int64(0); b < m/blk; b++ {
			if !c.Mine("eirp-random", b) {
				continue
			}
			r := c.RNG("eirp-random", b)
			for k := 0; k < blk; k++ {
				var p float32
				if k%2 == 0 {
					p = 8 + float32(r.U32()%2900000)/100000 // 8 .. 37
				} else {
					p = math.Float32frombits(math.Float32bits(8) + r.U32()%(math.Float32bits(math.MaxFloat32)-math.Float32bits(8)))
				}
				c20EIRP(c, p)
			}
			c.Eval(blk)
		}
	}
}
