package mon

import (
	"fmt"
	"sort"

	"github.com/brocaar/lorawan"

	"lwverif/core"
	"lwverif/spec"
)

func init() {
	core.Register(&core.Property{
		ID:   "C02",
		Rule: "data frames from the frame generator (all 4 data MTypes, FOpts 0..15, FPort absent/0/>0, payloads up to the 242-byte limit and, in one case of eight, up to 255 bytes, so messages span 1..18 CMAC blocks) x random 128-bit keys x MAC version 1.0/1.1 x confFCnt/txDR/txCh incl. boundary values; Set*DataMIC output is compared with an independent RFC 4493 CMAC over the spec's own B0/B1 blocks and the spec model's own serialisation; then one perturbation round per frame changes each authenticated and each excluded input alone and Validate* must answer exactly what the model says for the perturbed inputs. Distinct = (direction, version, ACK, message-length block class, perturbation class).",
		Assumptions: []string{
			"crypto/aes of the Go standard library is trusted; the CMAC on top of it is the harness' own RFC 4493 implementation (the library uses jacobsa/crypto/cmac)",
			"LoRaWAN 1.1 §4.4: ConfFCnt is used only when ACK is set (uplink) and, for downlinks, only in 1.1; taken modulo 2^16",
		},
		MinEvals: 1000,
		Run:      runC02,
	})
}

type micParams struct {
	v11        bool
	conf       uint32
	txDR, txCh byte
	fKey, sKey [16]byte
}

func macVer(v11 bool) lorawan.MACVersion {
	if v11 {
		return lorawan.LoRaWAN1_1
	}
	return lorawan.LoRaWAN1_0
}

func specDataMIC(d dataCase, p micParams) [4]byte {
	msg := d.Spec.Msg()
	if d.Spec.Uplink() {
		return spec.UplinkMIC(p.v11, p.conf, p.txDR, p.txCh, p.fKey, p.sKey, d.Spec.ACK, d.Spec.DevAddr, d.Spec.FCnt, msg)
	}
	return spec.DownlinkMIC(p.v11, p.conf, p.sKey, d.Spec.ACK, d.Spec.DevAddr, d.Spec.FCnt, msg)
}

func libSetMIC(phy *lorawan.PHYPayload, up bool, p micParams) error {
	if up {
		return phy.SetUplinkDataMIC(macVer(p.v11), p.conf, p.txDR, p.txCh, lorawan.AES128Key(p.fKey), lorawan.AES128Key(p.sKey))
	}
	return phy.SetDownlinkDataMIC(macVer(p.v11), p.conf, lorawan.AES128Key(p.sKey))
}

func libValidateMIC(phy lorawan.PHYPayload, up bool, p micParams) (bool, error) {
	if up {
		return phy.ValidateUplinkDataMIC(macVer(p.v11), p.conf, p.txDR, p.txCh, lorawan.AES128Key(p.fKey), lorawan.AES128Key(p.sKey))
	}
	return phy.ValidateDownlinkDataMIC(macVer(p.v11), p.conf, lorawan.AES128Key(p.sKey))
}

type perturbation struct {
	name string
	ok   func(d dataCase, p micParams) bool
	do   func(r *core.RNG, d *dataCase, p *micParams)
}

func flipBit(b []byte, r *core.RNG) {
	i := r.Intn(len(b) * 8)
	b[i/8] ^= 1 << uint(i%8)
}

var perturbations = []perturbation{
	{"mtype-confirmed", nil, func(r *core.RNG, d *dataCase, p *micParams) { d.Spec.MType ^= 6 }}, // 2<->4, 3<->5
	{"major", func(d dataCase, p micParams) bool { return !majorR1Only }, func(r *core.RNG, d *dataCase, p *micParams) { d.Spec.Major ^= byte(1 + r.Intn(3)) }},
	{"devaddr-bit", nil, func(r *core.RNG, d *dataCase, p *micParams) { flipBit(d.Spec.DevAddr[:], r) }},
	{"adr", nil, func(r *core.RNG, d *dataCase, p *micParams) { d.Spec.ADR = !d.Spec.ADR }},
	{"adrackreq", nil, func(r *core.RNG, d *dataCase, p *micParams) { d.Spec.ADRACKReq = !d.Spec.ADRACKReq }},
	{"ack", nil, func(r *core.RNG, d *dataCase, p *micParams) { d.Spec.ACK = !d.Spec.ACK }},
	{"bit4", nil, func(r *core.RNG, d *dataCase, p *micParams) {
		d.Spec.Bit4 = !d.Spec.Bit4
		if d.Spec.Uplink() {
			d.ClassB, d.FPending = d.Spec.Bit4, false
		} else {
			d.FPending, d.ClassB = d.Spec.Bit4, false
		}
	}},
	{"fcnt-low", nil, func(r *core.RNG, d *dataCase, p *micParams) { d.Spec.FCnt ^= 1 << uint(r.Intn(16)) }},
	{"fcnt-high", nil, func(r *core.RNG, d *dataCase, p *micParams) { d.Spec.FCnt ^= 1 << uint(16+r.Intn(16)) }},
	{"fopts-bit", func(d dataCase, p micParams) bool { return d.FOptsRaw }, func(r *core.RNG, d *dataCase, p *micParams) {
		b := append([]byte{}, d.Spec.FOpts...)
		flipBit(b, r)
		d.Spec.FOpts = b
		d.FOpts = []lorawan.Payload{&lorawan.DataPayload{Bytes: append([]byte{}, b...)}}
	}},
	{"fport", func(d dataCase, p micParams) bool { return d.Spec.FPort > 0 }, func(r *core.RNG, d *dataCase, p *micParams) {
		np := 1 + r.Intn(255)
		if np == d.Spec.FPort {
			np = 1 + np%255
		}
		d.Spec.FPort = np
	}},
	{"payload-bit", func(d dataCase, p micParams) bool { return len(d.Spec.FRMPayload) > 0 && !d.FRMIsMAC }, func(r *core.RNG, d *dataCase, p *micParams) {
		b := append([]byte{}, d.Spec.FRMPayload...)
		flipBit(b, r)
		d.Spec.FRMPayload = b
		d.FRM = []lorawan.Payload{&lorawan.DataPayload{Bytes: append([]byte{}, b...)}}
	}},
	{"payload-extend", func(d dataCase, p micParams) bool {
		return d.Spec.FPort > 0 && !d.FRMIsMAC && len(d.Spec.FRMPayload)+len(d.Spec.FOpts) < 242
	}, func(r *core.RNG, d *dataCase, p *micParams) {
		b := append(append([]byte{}, d.Spec.FRMPayload...), 0)
		d.Spec.FRMPayload = b
		d.FRM = []lorawan.Payload{&lorawan.DataPayload{Bytes: append([]byte{}, b...)}}
	}},
	{"fkey-bit", func(d dataCase, p micParams) bool { return d.Spec.Uplink() }, func(r *core.RNG, d *dataCase, p *micParams) { flipBit(p.fKey[:], r) }},
	{"skey-bit", nil, func(r *core.RNG, d *dataCase, p *micParams) { flipBit(p.sKey[:], r) }},
	{"conf-low", nil, func(r *core.RNG, d *dataCase, p *micParams) { p.conf ^= 1 << uint(r.Intn(16)) }},
	{"conf-high", nil, func(r *core.RNG, d *dataCase, p *micParams) { p.conf ^= 1 << uint(16+r.Intn(16)) }},
	{"txdr", func(d dataCase, p micParams) bool { return d.Spec.Uplink() }, func(r *core.RNG, d *dataCase, p *micParams) { p.txDR ^= byte(1 + r.Intn(255)) }},
	{"txch", func(d dataCase, p micParams) bool { return d.Spec.Uplink() }, func(r *core.RNG, d *dataCase, p *micParams) { p.txCh ^= byte(1 + r.Intn(255)) }},
	{"version", nil, func(r *core.RNG, d *dataCase, p *micParams) { p.v11 = !p.v11 }},
}

func blockClass(n int) string {
	switch {
	case n <= 16:
		return "<=1blk"
	case n <= 32:
		return "2blk"
	case n%16 == 0:
		return "aligned"
	case n < 128:
		return "3-8blk"
	default:
		return ">8blk"
	}
}

// c02SpecialMIC builds frames whose *correct* MIC has a special form - 00000000, ffffffff - which random
// inputs produce once in 2^32 frames: for a LoRaWAN 1.1 uplink the two halves come from two keys, so
// each half can be searched separately (2 x ~2^16 CMACs). A validator that treats such a value as
// "not set" rejects a genuine frame.
func c02SpecialMIC(c *core.Ctx, r *core.RNG, target [2]byte, pfx string) {
	o := anyData()
	o.mtype = 2 + 2*r.Intn(2)
	o.maxFRM = 24
	d := genDataCase(r, o)
	p := micParams{v11: true, conf: r.U32Edge(), txDR: r.Byte(), txCh: r.Byte(), fKey: key16(r), sKey: key16(r)}
	msg := d.Spec.Msg()
	found := 0
	for try := uint32(0); try < 1<<20 && found < 2; try++ {
		k := p.fKey
		if found == 1 {
			k = p.sKey
		}
		k[0], k[1], k[2] = byte(try), byte(try>>8), byte(try>>16)
		var m [4]byte
		if found == 0 {
			cf := spec.UplinkCMACF(k, d.Spec.DevAddr, d.Spec.FCnt, msg)
			m[2], m[3] = cf[0], cf[1]
			if cf == target {
				p.fKey = k
				found = 1
				try = 0
			}
		} else {
			full := spec.UplinkMIC(true, p.conf, p.txDR, p.txCh, p.fKey, k, d.Spec.ACK, d.Spec.DevAddr, d.Spec.FCnt, msg)
			if full[0] == target[0] && full[1] == target[1] {
				p.sKey = k
				found = 2
			}
		}
	}
	if found < 2 {
		c.Note("special-MIC search did not finish (inconclusive for this case)")
		return
	}
	want := specDataMIC(d, p)
	if want != [4]byte{target[0], target[1], target[0], target[1]} {
		return
	}
	phy := d.Lib()
	c.Eval(2)
	if err := libSetMIC(&phy, true, p); err != nil || [4]byte(phy.MIC) != want {
		c.Violate(pfx+"|special-mic|set", "frame whose specified MIC is %x: Set gives %x (%v)", want, [4]byte(phy.MIC), err)
		return
	}
	rx := d.Lib()
	rx.MIC = lorawan.MIC(want)
	if ok, err := libValidateMIC(rx, true, p); err != nil || !ok {
		c.Violate(fmt.Sprintf("%s|special-mic|genuine-frame-rejected|mic=%x", pfx, want), "a frame carrying its correct MIC %x is rejected by Validate (ok=%v err=%v) | msg=%x fcnt=%d", want, ok, err, msg, d.Spec.FCnt)
	}
	rx.MIC[1] ^= 0x40
	if ok, _ := libValidateMIC(rx, true, p); ok {
		c.Violate(pfx+"|special-mic|tampered-accepted", "MIC %x with one bit changed is accepted", want)
	}
	c.Shape("special-mic", fmt.Sprintf("%x", want))
	c.Count("frames.with-special-mic", 1)
}

func runC02(c *core.Ctx) {
	for k := int64(0); k < 8; k++ {
		if c.Mine("special-mic", k) {
			c02SpecialMIC(c, c.RNG("special-mic", k), [][2]byte{{0, 0}, {0xff, 0xff}}[k%2], "C02")
		}
	}
	n := c.N(20000, 8000000)
	for i := int64(0); i < n; i++ {
		if !c.Mine("mic", i) {
			continue
		}
		r := c.RNG("mic", i)
		o := anyData()
		if r.Chance(7, 10) {
			o.rawFOpts, o.macInFRM = 1, 0
		}
		if r.Chance(1, 8) {
			o.maxFRM = 255 // the property's "multi-block lengths up to 255 bytes": beyond the regional 242-byte limit
		}
		d := genDataCase(r, o)
		p := micParams{v11: r.Bool(), conf: r.U32Edge(), txDR: r.Byte(), txCh: r.Byte(), fKey: key16(r), sKey: key16(r)}
		if r.Chance(1, 10) {
			p.sKey = p.fKey
		}
		if r.Chance(1, 6) { // first data-rate, first channel (and both): the B1 block then differs from B0 in fewer places
			switch r.Intn(3) {
			case 0:
				p.txDR = 0
			case 1:
				p.txCh = 0
			default:
				p.txDR, p.txCh = 0, 0
				if r.Bool() {
					p.sKey = p.fKey
				}
			}
		}
		up := d.Spec.Uplink()
		dir := "down"
		if up {
			dir = "up"
		}

		phy := d.Lib()
		var err error
		c.Eval(1)
		if pn, msg := core.Guard(func() { err = libSetMIC(&phy, up, p) }); pn || err != nil {
			c.Violate("C02|set-failed|"+dir, "Set%sDataMIC failed on a valid frame: %v %s", dir, err, msg)
			continue
		}
		want := specDataMIC(d, p)
		if [4]byte(phy.MIC) != want {
			c.Violate(fmt.Sprintf("C02|mic-differs|%s|v11=%v|ack=%v", dir, p.v11, d.Spec.ACK),
				"library MIC %x != spec MIC %x | msg=%x fcnt=%d conf=%d txDR=%d txCh=%d devaddr=%x", [4]byte(phy.MIC), want, d.Spec.Msg(), d.Spec.FCnt, p.conf, p.txDR, p.txCh, d.Spec.DevAddr)
			continue
		}
		if c.WantSample("mic") {
			c.Sample("mic", map[string]interface{}{"dir": dir, "v11": p.v11, "ack": d.Spec.ACK, "fcnt": d.Spec.FCnt, "confFCnt": p.conf, "txDR": p.txDR, "txCh": p.txCh, "msg": core.Hex(d.Spec.Msg()), "mic": core.Hex(want[:])})
		}
		setMIC := phy.MIC

		// validate on the unchanged inputs
		var ok bool
		c.Eval(1)
		if pn, msg := core.Guard(func() { ok, err = libValidateMIC(phy, up, p) }); pn || err != nil || !ok {
			c.Violate("C02|validate-own-mic|"+dir, "Validate rejects the MIC Set just wrote: ok=%v err=%v %s", ok, err, msg)
		}
		// a Set call that cannot succeed (the frame is momentarily unserialisable: 16+ bytes of FOpts) reports
		// the error. What the frame's MIC field holds afterwards is not the property's business (the library
		// leaves it; clearing it is as good) - but Validate must then say what the frame carries: true exactly
		// when that is still the specification's value
		if i%5 == 0 {
			mp := phy.MACPayload.(*lorawan.MACPayload)
			keep := mp.FHDR.FOpts
			mp.FHDR.FOpts = []lorawan.Payload{&lorawan.DataPayload{Bytes: r.Bytes(16 + r.Intn(4))}}
			c.Eval(2)
			var e2 error
			core.Guard(func() { e2 = libSetMIC(&phy, up, p) })
			mp.FHDR.FOpts = keep
			if e2 == nil {
				c.Violate("C02|set-on-unserialisable-frame|"+dir, "Set%sDataMIC reports success on a frame with more than 15 bytes of FOpts", dir)
			}
			if phy.MIC != setMIC {
				c.Count("failed-set.mic-field-changed", 1)
				if ok2, e3 := libValidateMIC(phy, up, p); e3 != nil || ok2 {
					c.Violate("C02|validate-after-failed-set|"+dir, "a failed Set left MIC %x in the frame (specification: %x) and Validate gives ok=%v err=%v", [4]byte(phy.MIC), [4]byte(setMIC), ok2, e3)
				}
				phy.MIC = setMIC
			}
			if ok2, e3 := libValidateMIC(phy, up, p); e3 != nil || !ok2 {
				c.Violate("C02|validate-after-failed-set|"+dir, "after a failed Set on the same object (and the cause undone) Validate gives ok=%v err=%v", ok2, e3)
			}
		}
		// plausible wrong MICs: what another form / version / direction / counter width of the specification
		// gives for the same frame must not validate (unless it happens to be the right value)
		if i%3 == 0 {
			msg := d.Spec.Msg()
			da, fc, ack := d.Spec.DevAddr, d.Spec.FCnt, d.Spec.ACK
			forged := map[string][4]byte{"zero": {}}
			add := func(n string, m [4]byte) { forged[n] = m }
			if up {
				add("other-version", spec.UplinkMIC(!p.v11, p.conf, p.txDR, p.txCh, p.fKey, p.sKey, ack, da, fc, msg))
				add("keys-swapped", spec.UplinkMIC(p.v11, p.conf, p.txDR, p.txCh, p.sKey, p.fKey, ack, da, fc, msg))
				add("ack-inverted", spec.UplinkMIC(p.v11, p.conf, p.txDR, p.txCh, p.fKey, p.sKey, !ack, da, fc, msg))
				add("conf-zero", spec.UplinkMIC(p.v11, 0, p.txDR, p.txCh, p.fKey, p.sKey, ack, da, fc, msg))
				add("tx-zero", spec.UplinkMIC(p.v11, p.conf, 0, 0, p.fKey, p.sKey, ack, da, fc, msg))
				add("downlink-form", spec.DownlinkMIC(p.v11, p.conf, p.sKey, ack, da, fc, msg))
				add("downlink-form-fkey", spec.DownlinkMIC(false, 0, p.fKey, ack, da, fc, msg))
				add("fcnt-16bit", spec.UplinkMIC(p.v11, p.conf, p.txDR, p.txCh, p.fKey, p.sKey, ack, da, fc&0xffff, msg))
				add("fcnt-plus-64k", spec.UplinkMIC(p.v11, p.conf, p.txDR, p.txCh, p.fKey, p.sKey, ack, da, fc+0x10000, msg))
				add("fcnt-minus-64k", spec.UplinkMIC(p.v11, p.conf, p.txDR, p.txCh, p.fKey, p.sKey, ack, da, fc-0x10000, msg))
				m11 := spec.UplinkMIC(true, p.conf, p.txDR, p.txCh, p.fKey, p.sKey, ack, da, fc, msg)
				add("halves-swapped", [4]byte{m11[2], m11[3], m11[0], m11[1]})
			} else {
				add("other-version", spec.DownlinkMIC(!p.v11, p.conf, p.sKey, ack, da, fc, msg))
				add("ack-inverted", spec.DownlinkMIC(p.v11, p.conf, p.sKey, !ack, da, fc, msg))
				add("conf-zero", spec.DownlinkMIC(p.v11, 0, p.sKey, ack, da, fc, msg))
				add("conf-forced", spec.DownlinkMIC(true, p.conf|1, p.sKey, true, da, fc, msg))
				add("uplink-form", spec.UplinkMIC(false, 0, 0, 0, p.sKey, p.sKey, ack, da, fc, msg))
				add("other-key", spec.DownlinkMIC(p.v11, p.conf, p.fKey, ack, da, fc, msg))
				add("fcnt-16bit", spec.DownlinkMIC(p.v11, p.conf, p.sKey, ack, da, fc&0xffff, msg))
				add("fcnt-plus-64k", spec.DownlinkMIC(p.v11, p.conf, p.sKey, ack, da, fc+0x10000, msg))
				add("fcnt-minus-64k", spec.DownlinkMIC(p.v11, p.conf, p.sKey, ack, da, fc-0x10000, msg))
			}
			names := make([]string, 0, len(forged))
			for n := range forged {
				names = append(names, n)
			}
			sort.Strings(names)
			for _, n := range names {
				m := forged[n]
				f2 := d.Lib()
				f2.MIC = lorawan.MIC(m)
				var got bool
				var e2 error
				c.Eval(1)
				if pn, msg := core.Guard(func() { got, e2 = libValidateMIC(f2, up, p) }); pn || e2 != nil {
					c.Violate("C02|validate-error|"+dir, "%v %s", e2, msg)
					continue
				}
				if got != (m == want) {
					c.Violate(fmt.Sprintf("C02|forged-mic|%s|%s|v11=%v|ack=%v|lib=%v", dir, n, p.v11, ack, got), "frame carrying the %s value %x (specification: %x): Validate=%v | fcnt=%#x conf=%#x", n, m, want, got, fc, p.conf)
				}
				c.Shape("forged", dir, n, p.v11, m == want)
			}
		}
		// cmacF check
		if up {
			cf := spec.UplinkCMACF(p.fKey, d.Spec.DevAddr, d.Spec.FCnt, d.Spec.Msg())
			wantF := setMIC[2] == cf[0] && setMIC[3] == cf[1]
			var okF bool
			c.Eval(1)
			if pn, msg := core.Guard(func() { okF, err = phy.ValidateUplinkDataMICF(lorawan.AES128Key(p.fKey)) }); pn || err != nil || okF != wantF {
				c.Violate("C02|micF", "ValidateUplinkDataMICF=%v (err %v %s), model says %v (mic %x cmacF %x v11=%v)", okF, err, msg, wantF, setMIC, cf, p.v11)
			}
			if !p.v11 {
				c.Count("micF.on-1.0-mic", 1)
			}
		}

		// perturbation round
		for pi, pt := range perturbations {
			if pt.ok != nil && !pt.ok(d, p) {
				continue
			}
			pr := c.RNG("mic-perturb", i*64+int64(pi))
			d2 := d
			p2 := p
			pt.do(pr, &d2, &p2)
			phy2 := d2.Lib()
			phy2.MIC = setMIC
			up2 := d2.Spec.Uplink()
			model := specDataMIC(d2, p2) == [4]byte(setMIC)
			var got bool
			c.Eval(1)
			if pn, msg := core.Guard(func() { got, err = libValidateMIC(phy2, up2, p2) }); pn || err != nil {
				c.Violate("C02|validate-error|"+pt.name, "Validate failed after perturbation %s: %v %s", pt.name, err, msg)
				continue
			}
			if got != model {
				c.Violate(fmt.Sprintf("C02|validate-disagrees|%s|%s|v11=%v|ack=%v|lib=%v", dir, pt.name, p2.v11, d2.Spec.ACK, got),
					"after changing %s alone: library Validate=%v, spec model says %v | msg=%x fcnt=%d conf=%d->%d txDR=%d txCh=%d", pt.name, got, model, d2.Spec.Msg(), d2.Spec.FCnt, p.conf, p2.conf, p2.txDR, p2.txCh)
			}
			if model {
				c.Count("perturb.excluded-input-kept-mic", 1)
			} else {
				c.Count("perturb.rejected", 1)
			}
			c.Shape(dir, p.v11, d.Spec.ACK, blockClass(len(d.Spec.Msg())), pt.name, model)
		}
		// a random MIC must be judged by the same rule
		var rm lorawan.MIC
		r.Fill(rm[:])
		phy3 := d.Lib()
		phy3.MIC = rm
		c.Eval(1)
		if got, err := libValidateMIC(phy3, up, p); err != nil || got != (rm == setMIC) {
			c.Violate("C02|random-mic", "Validate(random MIC %x)=%v err=%v, expected %v", rm, got, err, rm == setMIC)
		}
		c.Count("frames."+dir, 1)
	}
}
