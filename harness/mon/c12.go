package mon

import (
	"encoding/binary"
	"fmt"
	"time"

	"github.com/brocaar/lorawan"
	"github.com/brocaar/lorawan/band"

	"lwverif/core"
	"lwverif/spec"
)

func init() {
	core.Register(&core.Property{
		ID:   "C12",
		Rule: "all 14 band names x repeater x dwell-time = 56 configurations (plus the 10 deprecated aliases), each swept completely: every uplink channel index and frequency (default channels and three added custom channels where supported) through GetRX1ChannelIndexForUplinkChannelIndex / GetRX1FrequencyForUplinkFrequency / GetDownlinkChannel; every (uplink DR -2..16) x (RX1 offset -2..9) through GetRX1DataRateIndex under recover(); RX2 defaults; ping-slot frequency for seeded (DevAddr, beaconTime >= 0) pairs incl. wrap-around boundaries (quick 4k, thorough 1M per hopping region). Oracles from harness/spec/regional.go: region channel rule (same / mod 8 / mod 48), RX1 data-rate formula where the region defines one, result must be a defined downlink data-rate (hook snapshot), monotone over the positive offsets with steps of at most one defined downlink DR, invalid arguments -> error never panic. Distinct = (band config, uplink DR, offset) cells and (band, channel) pairs.",
		Assumptions: []string{
			"Regional Parameters rules as transcribed in harness/spec/regional.go; LR-FHSS uplink rows are checked structurally only (result is a downlink DR, monotone), not against pinned values",
			"an accepted lookup for an undefined uplink data-rate row is not itself a violation as long as its result exists for downlink (the property constrains results)",
		},
		MinEvals: 1000,
		Run:      runC12,
	})
}

// rx1Matrix renders which (uplink DR, offset) pairs a fresh instance accepts and what it answers.
func rx1Matrix(cfg bandCfg) string {
	b, err := cfg.New()
	if err != nil {
		return "error"
	}
	out := make([]byte, 0, 512)
	for ul := 0; ul <= 15; ul++ {
		for off := 0; off <= 7; off++ {
			dr, err := 0, error(nil)
			core.Guard(func() { dr, err = b.GetRX1DataRateIndex(ul, off) })
			if err != nil {
				out = append(out, '.')
			} else {
				out = append(out, byte('A'+dr))
			}
		}
	}
	return string(out)
}

func runC12(c *core.Ctx) {
	bandFingerprints(c, "band-tables")
	// first thing in a fresh process: the RX1 answers of every configuration, created in a rotated order
	var firstMatrix map[string]string
	if c.Mine("creation-order", int64(c.Batch)) {
		firstMatrix = map[string]string{}
		all := allBandCfgs()
		rot := (c.Batch * 7) % len(all)
		for k := range all {
			cfg := all[(k+rot)%len(all)]
			firstMatrix[cfg.String()] = rx1Matrix(cfg)
			c.Eval(1)
		}
		defer func() {
			for k := len(all) - 1; k >= 0; k-- {
				cfg := all[(k+rot)%len(all)]
				c.Eval(1)
				if now := rx1Matrix(cfg); now != firstMatrix[cfg.String()] {
					c.Violate("C12|"+cfg.Name+"|rx1dr-depends-on-creation-order", "the RX1 data-rate answers of a fresh %s instance changed after other bands were created in the process (accepted pairs A..P = DR0..15, '.' = error):\n first %s\n later %s", cfg, firstMatrix[cfg.String()], now)
				}
			}
		}()
	}
	cfgs := allBandCfgs()
	for ci, cfg := range cfgs {
		if !c.Mine("band", int64(ci)) {
			continue
		}
		b, err := cfg.New()
		if err != nil {
			c.Violate("C12|getconfig|"+cfg.Name, "%v", err)
			continue
		}
		reg := spec.Regions[cfg.Name]
		snap, ok := band.VerifSnapshotOf(b)
		if !ok {
			c.Violate("C12|hook-missing", "band %s does not expose the verif snapshot", cfg.Name)
			continue
		}
		if b.Name() != cfg.Name {
			c.Violate("C12|name|"+cfg.Name, "Name() = %q", b.Name())
		}
		c12Channels(c, cfg, b, reg, false)
		if reg.ExtraChannels {
			base := reg.Uplink[0].Freq
			const k4, k5 = 4, 5
			for k := uint32(1); k <= 3; k++ {
				b.AddChannel(base+k*1600000, 0, 5)
			}
			b.AddChannel(base+200000*7, 6, 6)
			c12Channels(c, cfg, b, reg, true)
			// a second data-rate range on a frequency that is already in the plan (868.3 MHz DR6 next to
			// 868.3 MHz DR0-5 is the textbook case), followed by further channels
			b.AddChannel(reg.Uplink[len(reg.Uplink)-1].Freq, 6, 6)
			b.AddChannel(base+k4*1600000, 0, 5)
			b.AddChannel(base+1600000, 6, 6)
			b.AddChannel(base+k5*1600000, 0, 5)
			c12Channels(c, cfg, b, reg, true)
			// the very same channel added again after its first copy was switched off, an invalid
			// Disable / Enable in between, then one more new channel
			if idx := b.GetCustomUplinkChannelIndices(); len(idx) > 0 {
				b.DisableUplinkChannelIndex(idx[0])
				b.AddChannel(base+1600000, 0, 5)
				b.DisableUplinkChannelIndex(-1)
				b.EnableUplinkChannelIndex(1 << 20)
				b.AddChannel(base+6*1600000, 0, 5)
				c12Channels(c, cfg, b, reg, true)
			}
		}
		// the same channel laws with part of the plan switched off (a sub-band deployment, a single block):
		// what RX1 channel / frequency belongs to an uplink channel does not depend on which others are enabled
		if b3, err := cfg.New(); err == nil {
			n := len(reg.Uplink)
			for k := 0; k < n; k++ {
				if !(k/8 == 1 || (k >= 64 && k-64 == 1)) && n > 16 || n <= 16 && k == 0 {
					b3.DisableUplinkChannelIndex(k)
				}
			}
			c12Channels(c, cfg, b3, reg, true)
			for k := 0; k < n; k += 3 {
				b3.EnableUplinkChannelIndex(k)
			}
			c12Channels(c, cfg, b3, reg, true)
		}
		c12RX1DR(c, cfg, b, reg, snap)
		c12Defaults(c, cfg, b, reg, snap)
		c12PingSlot(c, cfg, b, reg, ci)
	}
	// aliases resolve to the same band
	if c.Whole("aliases") {
		for alias, name := range bandAliases {
			b, err := band.GetConfig(band.Name(alias), false, lorawan.DwellTimeNoLimit)
			c.Eval(1)
			if err != nil || b.Name() != name {
				c.Violate("C12|alias|"+alias, "GetConfig(%s) = %v, %v; want band %s", alias, b, err, name)
			}
		}
		// a name that is no band is outside the property; it must only not panic
		if p, msg := core.Guard(func() { _, _ = band.GetConfig("NOPE", false, lorawan.DwellTimeNoLimit) }); p {
			c.Violate("C12|unknown-band-panic", "GetConfig(NOPE): %s", msg)
		}
	}
}

func c12Channels(c *core.Ctx, cfg bandCfg, b band.Band, reg *spec.Region, custom bool) {
	idx := b.GetUplinkChannelIndices()
	for _, i := range idx {
		up, err := b.GetUplinkChannel(i)
		if err != nil {
			c.Violate("C12|"+cfg.Name+"|uplink-channel-missing", "index %d: %v", i, err)
			continue
		}
		want := i
		if reg.RX1Mod > 0 {
			want = i % reg.RX1Mod
		}
		var got int
		c.Eval(1)
		if p, msg := core.Guard(func() { got, err = b.GetRX1ChannelIndexForUplinkChannelIndex(i) }); p || err != nil {
			c.Violate(fmt.Sprintf("C12|%s|rx1-channel-error|ch=%d", cfg.Name, i), "GetRX1ChannelIndexForUplinkChannelIndex(%d): %v %s", i, err, msg)
			continue
		}
		if got != want {
			c.Violate(fmt.Sprintf("C12|%s|rx1-channel|ch=%d|got=%d", cfg.Name, i, got), "uplink channel %d -> RX1 channel %d, region rule says %d", i, got, want)
			continue
		}
		dl, err := b.GetDownlinkChannel(want)
		c.Eval(1)
		if err != nil {
			c.Violate(fmt.Sprintf("C12|%s|rx1-downlink-channel-missing|ch=%d", cfg.Name, i), "RX1 channel %d of uplink channel %d does not exist: %v", want, i, err)
			continue
		}
		var f uint32
		c.Eval(1)
		if p, msg := core.Guard(func() { f, err = b.GetRX1FrequencyForUplinkFrequency(up.Frequency) }); p || err != nil {
			c.Violate(fmt.Sprintf("C12|%s|rx1-frequency-error|ch=%d", cfg.Name, i), "GetRX1FrequencyForUplinkFrequency(%d): %v %s", up.Frequency, err, msg)
			continue
		}
		if f != dl.Frequency {
			c.Violate(fmt.Sprintf("C12|%s|rx1-frequency|ch=%d", cfg.Name, i), "uplink %d Hz (channel %d) -> RX1 %d Hz, but RX1 channel %d is %d Hz", up.Frequency, i, f, want, dl.Frequency)
		}
		// the default plan itself (frequencies) against the reference
		if !custom && i < len(reg.Uplink) && up.Frequency != reg.Uplink[i].Freq {
			c.Violate(fmt.Sprintf("C12|%s|uplink-frequency|ch=%d", cfg.Name, i), "channel %d is %d Hz, Regional Parameters: %d Hz", i, up.Frequency, reg.Uplink[i].Freq)
		}
		if !custom && want < len(reg.Downlink) && dl.Frequency != reg.Downlink[want].Freq {
			c.Violate(fmt.Sprintf("C12|%s|downlink-frequency|ch=%d", cfg.Name, want), "downlink channel %d is %d Hz, Regional Parameters: %d Hz", want, dl.Frequency, reg.Downlink[want].Freq)
		}
		c.Shape("chan", cfg.Name, i, custom)
	}
	if !custom && len(idx) != len(reg.Uplink) {
		c.Violate("C12|"+cfg.Name+"|uplink-channel-count", "%d default uplink channels, Regional Parameters: %d", len(idx), len(reg.Uplink))
	}
}

func c12RX1DR(c *core.Ctx, cfg bandCfg, b band.Band, reg *spec.Region, snap band.VerifSnapshot) {
	isDown := func(dr int) bool {
		d, ok := snap.DataRates[dr]
		return ok && d.Downlink
	}
	for ul := -2; ul <= 16; ul++ {
		prev, havePrev := 0, false
		for off := -2; off <= 9; off++ {
			var got int
			var err error
			c.Eval(1)
			p, msg := core.Guard(func() { got, err = b.GetRX1DataRateIndex(ul, off) })
			c.Shape("rx1dr", cfg.String(), ul, off)
			if p {
				cls := "other"
				if off < 0 {
					cls = "negative-offset"
				} else if ul < 0 {
					cls = "negative-dr"
				}
				c.Violate(fmt.Sprintf("C12|%s|rx1dr-panic|%s", cfg.Name, cls), "GetRX1DataRateIndex(%d, %d) panics: %s", ul, off, short(msg, 300))
				continue
			}
			if ul < 0 || off < 0 || ul > 15 || off > 7 {
				if err == nil {
					c.Violate(fmt.Sprintf("C12|%s|rx1dr-invalid-accepted|ul=%d|off=%d", cfg.Name, ul, off), "GetRX1DataRateIndex(%d, %d) = %d, want an error", ul, off, got)
				}
				continue
			}
			want, pinned := reg.RX1DR(ul, off, cfg.Dwell)
			if err != nil {
				if pinned {
					c.Violate(fmt.Sprintf("C12|%s|rx1dr-rejected|ul=%d|off=%d", cfg.Name, ul, off), "GetRX1DataRateIndex(%d, %d) rejected (%v), region defines DR%d", ul, off, err, want)
				}
				havePrev = false
				continue
			}
			if !isDown(got) {
				c.Violate(fmt.Sprintf("C12|%s|rx1dr|ul=%d|off=%d|got=%d", cfg.Name, ul, off, got), "RX1 data-rate for (DR%d, offset %d) is DR%d which is not a downlink data-rate of %s", ul, off, got, cfg.Name)
			} else if pinned && got != want {
				c.Violate(fmt.Sprintf("C12|%s|rx1dr|ul=%d|off=%d|got=%d", cfg.Name, ul, off, got), "RX1 data-rate for (DR%d, offset %d, dwell=%v) is DR%d, region rule gives DR%d", ul, off, cfg.Dwell, got, want)
			}
			// monotone over the positive offsets, at most one defined downlink DR per step
			if off <= reg.PositiveOffsets {
				if havePrev && off > 0 {
					if got > prev {
						c.Violate(fmt.Sprintf("C12|%s|rx1dr-increases|ul=%d|off=%d|got=%d", cfg.Name, ul, off, got), "row DR%d: offset %d gives DR%d after DR%d", ul, off, got, prev)
					} else {
						skipped := 0
						for d := got + 1; d < prev; d++ {
							if isDown(d) {
								skipped++
							}
						}
						if skipped > 0 && isDown(got) && isDown(prev) {
							c.Violate(fmt.Sprintf("C12|%s|rx1dr|ul=%d|off=%d|got=%d", cfg.Name, ul, off, got), "row DR%d: offset %d -> DR%d after DR%d skips %d defined downlink data-rate(s)", ul, off, got, prev, skipped)
						}
					}
				}
				prev, havePrev = got, true
			}
		}
	}
}

func c12Defaults(c *core.Ctx, cfg bandCfg, b band.Band, reg *spec.Region, snap band.VerifSnapshot) {
	d := b.GetDefaults()
	c.Eval(1)
	if d.RX2Frequency != reg.RX2Freq || d.RX2DataRate != reg.RX2DR {
		c.Violate("C12|"+cfg.Name+"|rx2-defaults", "RX2 %d Hz DR%d, Regional Parameters: %d Hz DR%d", d.RX2Frequency, d.RX2DataRate, reg.RX2Freq, reg.RX2DR)
	}
	if dr, ok := snap.DataRates[d.RX2DataRate]; !ok || !dr.Downlink {
		c.Violate("C12|"+cfg.Name+"|rx2-dr-not-downlink", "RX2 default DR%d is not a downlink data-rate", d.RX2DataRate)
	}
	if d.ReceiveDelay1 != time.Second || d.ReceiveDelay2 != 2*time.Second || d.JoinAcceptDelay1 != 5*time.Second || d.JoinAcceptDelay2 != 6*time.Second {
		c.Violate("C12|"+cfg.Name+"|delays", "%+v", d)
	}
}

func c12PingSlot(c *core.Ctx, cfg bandCfg, b band.Band, reg *spec.Region, ci int) {
	n := int(c.N(300, 40000))
	if reg.PingSlot == 0 {
		n = int(c.N(4000, 1000000))
	}
	for k := 0; k < n; k++ {
		r := c.RNG("pingslot", int64(ci)<<32|int64(k))
		addr := r.U32()
		bt := time.Duration(r.U64() % uint64(1<<62))
		switch k % 8 {
		case 0:
			addr = []uint32{0, 1, 7, 8, 0xffffffff, 0xfffffff8, 0x7fffffff, 0x80000000}[r.Intn(8)]
		case 1:
			bt = time.Duration(r.Intn(1<<20)) * 128 * time.Second
			bt += []time.Duration{0, -1, 1, 127*time.Second + 999999999}[r.Intn(4)]
			if bt < 0 {
				bt = 0
			}
		case 2:
			bt = time.Duration(r.Intn(1400000000)) * time.Second // realistic GPS seconds
		}
		var da lorawan.DevAddr
		binary.BigEndian.PutUint32(da[:], addr)
		var f uint32
		var err error
		c.Eval(1)
		if p, msg := core.Guard(func() { f, err = b.GetPingSlotFrequency(da, bt) }); p || err != nil {
			c.Violate("C12|"+cfg.Name+"|pingslot-error", "GetPingSlotFrequency(%08x, %v): %v %s", addr, bt, err, msg)
			return
		}
		var want uint32
		if reg.PingSlot != 0 {
			want = reg.PingSlot
		} else {
			ch := (uint64(addr) + uint64(bt/(128*time.Second))) % 8
			want = reg.PingHop[ch]
			if reg.Name != "CN470" {
				dl, err := b.GetDownlinkChannel(int(ch))
				if err != nil || dl.Frequency != want {
					c.Violate("C12|"+cfg.Name+"|pingslot-downlink-channel", "downlink channel %d: %v %v", ch, dl, err)
				}
			}
			c.Shape("pinghop", cfg.Name, ch)
		}
		if f != want {
			c.Violate("C12|"+cfg.Name+"|pingslot", "GetPingSlotFrequency(%08x, %v) = %d, region rule gives %d", addr, bt, f, want)
			return
		}
	}
	if c.WantSample("pingslot") && reg.PingSlot == 0 {
		c.Sample("pingslot", map[string]interface{}{"band": cfg.Name, "rule": "(DevAddr + floor(beaconTime/128s)) mod 8", "frequencies": reg.PingHop})
	}
}
