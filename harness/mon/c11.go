package mon

import (
	"bytes"
	"encoding/binary"
	"encoding/hex"
	"encoding/json"
	"fmt"
	"strings"

	"github.com/brocaar/lorawan"

	"lwverif/core"
	"lwverif/spec"
)

func init() {
	core.Register(&core.Property{
		ID:          "C11",
		Rule:        "NetIDs: quick = every NetID with stride 97 plus all field-boundary values for the 8 types, thorough = all 2^24 NetIDs (exhaustive); each combined with DevAddrs {0, 0xFFFFFFFF, two seeded random values}; SetAddrPrefix / NwkID / NetIDType / IsNetID / NetID.Type / NetID.ID are compared with an integer-arithmetic model of the addressing rules, IsNetID additionally on near-miss addresses (every single-bit neighbour of the prefixed address, sampled bit flips in the prefix / NwkID / NwkAddr fields of the other addresses, and the same NwkID value under another type). Representations: EUI64, DevAddr, NetID, AES128Key through text (hex, optional 0x), binary (byte-reversed), database Value/Scan, and every wrong length 0..2n. Distinct = (NetID type, DevAddr class, check kind) and (identifier type, representation, length).",
		Assumptions: []string{"NwkID widths 6/6/9/11/12/13/15/17 and prefix lengths 1..8 as in LoRaWAN Backend Interfaces 1.0 / the property statement"},
		MinEvals:    1000,
		Run:         runC11,
	})
}

func netIDFrom(v uint32) lorawan.NetID { return lorawan.NetID{byte(v >> 16), byte(v >> 8), byte(v)} }

func c11CheckNetID(c *core.Ctx, nid uint32, addrs []uint32) {
	n := netIDFrom(nid)
	t := spec.NetIDType(nid)
	c.Eval(2)
	if n.Type() != t {
		c.Violate(fmt.Sprintf("C11|netid-type|type=%d", t), "NetID %06x Type()=%d want %d", nid, n.Type(), t)
	}
	id, bits := spec.NetIDID(nid)
	if got := n.ID(); !bytes.Equal(got, spec.RightAligned(id, bits)) {
		c.Violate(fmt.Sprintf("C11|netid-id|type=%d", t), "NetID %06x ID()=%x want %x", nid, got, spec.RightAligned(id, bits))
	}
	for ai, a := range addrs {
		var da lorawan.DevAddr
		binary.BigEndian.PutUint32(da[:], a)
		c.Eval(1)
		if p, msg := core.Guard(func() { da.SetAddrPrefix(n) }); p {
			c.Violate("C11|setaddrprefix-panic", "%s", msg)
			continue
		}
		want := spec.AddrSetPrefix(a, nid)
		got := binary.BigEndian.Uint32(da[:])
		if got != want {
			c.Violate(fmt.Sprintf("C11|setaddrprefix|type=%d", t), "NetID %06x addr %08x -> %08x want %08x", nid, a, got, want)
			continue
		}
		c.Eval(3)
		if da.NetIDType() != t {
			c.Violate(fmt.Sprintf("C11|addr-type|type=%d", t), "addr %08x NetIDType()=%d want %d", got, da.NetIDType(), t)
		}
		wn, wb, _ := spec.AddrNwkID(want)
		if g := da.NwkID(); !bytes.Equal(g, spec.RightAligned(wn, wb)) {
			c.Violate(fmt.Sprintf("C11|addr-nwkid|type=%d", t), "addr %08x NwkID()=%x want %x", got, g, spec.RightAligned(wn, wb))
		}
		if !da.IsNetID(n) {
			c.Violate(fmt.Sprintf("C11|isnetid-false-negative|type=%d", t), "addr %08x should belong to NetID %06x", got, nid)
		}
		// near misses
		p := spec.AddrPrefixLen(t)
		nb := spec.NwkIDBits(t)
		cands := []uint32{
			want ^ 1<<uint(31-(ai%p)),        // prefix bit
			want ^ 1<<uint(31-p-(ai*7)%nb),   // NwkID bit
			want ^ 1<<uint((ai*5)%(32-p-nb)), // NwkAddr bit (still a member)
			a,                                // the unprefixed address
		}
		// every single-bit neighbour of the prefixed address (first DevAddr only: 32 candidates)
		if ai == 0 {
			for bit := uint(0); bit < 32; bit++ {
				cands = append(cands, want^1<<bit)
			}
		}
		// same NwkID value under a neighbouring type
		for _, t2 := range []int{(t + 1) % 8, (t + 7) % 8} {
			nid2 := uint32(t2)<<21 | nid&(1<<21-1)
			cands = append(cands, spec.AddrSetPrefix(a, nid2))
		}
		for k, cand := range cands {
			var d2 lorawan.DevAddr
			binary.BigEndian.PutUint32(d2[:], cand)
			c.Eval(1)
			if g, w := d2.IsNetID(n), spec.AddrIsNetID(cand, nid); g != w {
				c.Violate(fmt.Sprintf("C11|isnetid|type=%d|lib=%v", t, g), "addr %08x IsNetID(%06x)=%v model=%v (near-miss kind %d)", cand, nid, g, w, k)
			}
		}
		c.ShapeHash(uint64(t)<<8 | uint64(ai))
	}
}

type idCodec struct {
	name string
	size int
	// all operate on display-order bytes
	marshalText   func(b []byte) (string, error)
	unmarshalText func(s string) ([]byte, error)
	marshalBin    func(b []byte) ([]byte, error)
	unmarshalBin  func(w []byte) ([]byte, error)
	value         func(b []byte) (interface{}, error)
	scan          func(src interface{}) ([]byte, error)
}

var idCodecs = []idCodec{
	{"EUI64", 8,
		func(b []byte) (string, error) {
			var v lorawan.EUI64
			copy(v[:], b)
			t, e := v.MarshalText()
			return string(t), e
		},
		func(s string) ([]byte, error) { var v lorawan.EUI64; e := v.UnmarshalText([]byte(s)); return v[:], e },
		func(b []byte) ([]byte, error) { var v lorawan.EUI64; copy(v[:], b); return v.MarshalBinary() },
		func(w []byte) ([]byte, error) { var v lorawan.EUI64; e := v.UnmarshalBinary(w); return v[:], e },
		func(b []byte) (interface{}, error) { var v lorawan.EUI64; copy(v[:], b); return v.Value() },
		func(src interface{}) ([]byte, error) { var v lorawan.EUI64; e := v.Scan(src); return v[:], e }},
	{"DevAddr", 4,
		func(b []byte) (string, error) {
			var v lorawan.DevAddr
			copy(v[:], b)
			t, e := v.MarshalText()
			return string(t), e
		},
		func(s string) ([]byte, error) { var v lorawan.DevAddr; e := v.UnmarshalText([]byte(s)); return v[:], e },
		func(b []byte) ([]byte, error) { var v lorawan.DevAddr; copy(v[:], b); return v.MarshalBinary() },
		func(w []byte) ([]byte, error) { var v lorawan.DevAddr; e := v.UnmarshalBinary(w); return v[:], e },
		func(b []byte) (interface{}, error) { var v lorawan.DevAddr; copy(v[:], b); return v.Value() },
		func(src interface{}) ([]byte, error) { var v lorawan.DevAddr; e := v.Scan(src); return v[:], e }},
	{"NetID", 3,
		func(b []byte) (string, error) {
			var v lorawan.NetID
			copy(v[:], b)
			t, e := v.MarshalText()
			return string(t), e
		},
		func(s string) ([]byte, error) { var v lorawan.NetID; e := v.UnmarshalText([]byte(s)); return v[:], e },
		func(b []byte) ([]byte, error) { var v lorawan.NetID; copy(v[:], b); return v.MarshalBinary() },
		func(w []byte) ([]byte, error) { var v lorawan.NetID; e := v.UnmarshalBinary(w); return v[:], e },
		func(b []byte) (interface{}, error) { var v lorawan.NetID; copy(v[:], b); return v.Value() },
		func(src interface{}) ([]byte, error) { var v lorawan.NetID; e := v.Scan(src); return v[:], e }},
	{"AES128Key", 16,
		func(b []byte) (string, error) {
			var v lorawan.AES128Key
			copy(v[:], b)
			t, e := v.MarshalText()
			return string(t), e
		},
		func(s string) ([]byte, error) {
			var v lorawan.AES128Key
			e := v.UnmarshalText([]byte(s))
			return v[:], e
		},
		func(b []byte) ([]byte, error) { var v lorawan.AES128Key; copy(v[:], b); return v.MarshalBinary() },
		func(w []byte) ([]byte, error) { var v lorawan.AES128Key; e := v.UnmarshalBinary(w); return v[:], e },
		func(b []byte) (interface{}, error) { var v lorawan.AES128Key; copy(v[:], b); return v.Value() },
		func(src interface{}) ([]byte, error) { var v lorawan.AES128Key; e := v.Scan(src); return v[:], e }},
}

// c11Into decodes text / binary / database input into a receiver that already
// holds the value init, and returns what the receiver holds afterwards.
func c11Into(name string, init []byte, how int, in []byte) ([]byte, error) {
	dec := func(ut func([]byte) error, ub func([]byte) error, sc func(interface{}) error) error {
		switch how {
		case 0:
			return ut(in)
		case 1:
			return ub(in)
		}
		return sc(in)
	}
	switch name {
	case "EUI64":
		var v lorawan.EUI64
		copy(v[:], init)
		e := dec(v.UnmarshalText, v.UnmarshalBinary, v.Scan)
		return v[:], e
	case "DevAddr":
		var v lorawan.DevAddr
		copy(v[:], init)
		e := dec(v.UnmarshalText, v.UnmarshalBinary, v.Scan)
		return v[:], e
	case "NetID":
		var v lorawan.NetID
		copy(v[:], init)
		e := dec(v.UnmarshalText, v.UnmarshalBinary, v.Scan)
		return v[:], e
	default:
		var v lorawan.AES128Key
		copy(v[:], init)
		e := dec(v.UnmarshalText, v.UnmarshalBinary, v.Scan)
		return v[:], e
	}
}

// c11Returned: the byte slices the identifier types hand out (ID, NwkID, Marshal*) are the caller's to
// append to or overwrite; doing so must not change what the library answers next.
func c11Returned(c *core.Ctx, r *core.RNG) {
	nid := netIDFrom(r.U32() & 0xffffff)
	if r.Chance(1, 2) {
		nid = netIDFrom(uint32(r.Intn(2))<<21 | uint32(r.Intn(64))) // types 0/1: six-bit IDs
	}
	var da lorawan.DevAddr
	r.Fill(da[:])
	da.SetAddrPrefix(nid)
	var e lorawan.EUI64
	r.Fill(e[:])
	calls := []struct {
		name string
		f    func() []byte
	}{
		{"NetID.ID", func() []byte { return nid.ID() }},
		{"DevAddr.NwkID", func() []byte { return da.NwkID() }},
		{"NetID.MarshalBinary", func() []byte { b, _ := nid.MarshalBinary(); return b }},
		{"NetID.MarshalText", func() []byte { b, _ := nid.MarshalText(); return b }},
		{"DevAddr.MarshalBinary", func() []byte { b, _ := da.MarshalBinary(); return b }},
		{"DevAddr.MarshalText", func() []byte { b, _ := da.MarshalText(); return b }},
		{"EUI64.MarshalBinary", func() []byte { b, _ := e.MarshalBinary(); return b }},
		{"EUI64.MarshalText", func() []byte { b, _ := e.MarshalText(); return b }},
	}
	first := make([][]byte, len(calls))
	for i, cl := range calls {
		out := cl.f()
		first[i] = append([]byte{}, out...)
		for k := range out {
			out[k] ^= 0x5a
		}
		_ = append(out, 0x5a, 0x5a, 0x5a)
	}
	c.Eval(int64(2 * len(calls)))
	for i, cl := range calls {
		if out := cl.f(); !bytes.Equal(out, first[i]) {
			c.Violate("C11|returned-bytes-shared|"+cl.name, "%s returned %x; after the caller overwrote what it had been handed, it returns %x (NetID %x, DevAddr %x)", cl.name, first[i], out, nid[:], da[:])
		}
	}
	if !da.IsNetID(nid) {
		c.Violate("C11|returned-bytes-shared|IsNetID", "after the caller overwrote returned slices, %x is no longer a member of NetID %x", da[:], nid[:])
	}
	c.Shape("returned", nid.Type())
}

// c11JSON decodes a JSON document into the identifier type and returns its bytes.
func c11JSON(name string, doc []byte) ([]byte, error) {
	switch name {
	case "EUI64":
		var v lorawan.EUI64
		err := json.Unmarshal(doc, &v)
		return v[:], err
	case "DevAddr":
		var v lorawan.DevAddr
		err := json.Unmarshal(doc, &v)
		return v[:], err
	case "NetID":
		var v lorawan.NetID
		err := json.Unmarshal(doc, &v)
		return v[:], err
	default:
		var v lorawan.AES128Key
		err := json.Unmarshal(doc, &v)
		return v[:], err
	}
}

func c11Representations(c *core.Ctx, r *core.RNG, ic idCodec) {
	b := r.Bytes(ic.size)
	switch r.Intn(8) {
	case 0:
		for i := range b {
			b[i] = 0
		}
	case 1:
		for i := range b {
			b[i] = 0xff
		}
	case 2:
		for i := range b {
			b[i] = byte(i + 1)
		}
	}
	bad := func(what, f string, a ...interface{}) {
		c.Violate("C11|repr|"+ic.name+"|"+what, "%s | value %x", fmt.Sprintf(f, a...), b)
	}
	// text
	c.Eval(6)
	txt, err := ic.marshalText(b)
	// the text form is hex with an optional 0x; the property does not fix the letter case
	if err != nil || strings.ToLower(strings.TrimPrefix(strings.TrimPrefix(txt, "0x"), "0X")) != hex.EncodeToString(b) {
		bad("text-marshal", "MarshalText=%q err=%v, want the value in hex", txt, err)
	}
	if err == nil {
		if got, err := ic.unmarshalText(txt); err != nil || !bytes.Equal(got, b) {
			bad("text-own-form", "UnmarshalText of the library's own text %q gives %x (%v)", txt, got, err)
		}
	}
	for _, form := range []string{hex.EncodeToString(b), "0x" + hex.EncodeToString(b), strings.ToUpper(hex.EncodeToString(b))} {
		got, err := ic.unmarshalText(form)
		if err != nil || !bytes.Equal(got, b) {
			bad("text-unmarshal", "UnmarshalText(%q)=%x err=%v", form, got, err)
		}
	}
	// binary = byte reversed
	w, err := ic.marshalBin(b)
	rev := make([]byte, len(b))
	for i := range b {
		rev[len(b)-1-i] = b[i]
	}
	if err != nil || !bytes.Equal(w, rev) {
		bad("binary-marshal", "MarshalBinary=%x err=%v want %x", w, err, rev)
	}
	if got, err := ic.unmarshalBin(rev); err != nil || !bytes.Equal(got, b) {
		bad("binary-unmarshal", "UnmarshalBinary(%x)=%x err=%v", rev, got, err)
	}
	// the buffers handed to the decoders stay the caller's: unchanged, and decoding them again gives the same value
	{
		in := append([]byte{}, rev...)
		ic.unmarshalBin(in)
		after1 := append([]byte{}, in...)
		got2, err2 := ic.unmarshalBin(in)
		if !bytes.Equal(after1, rev) || !bytes.Equal(in, rev) || err2 != nil || !bytes.Equal(got2, b) {
			bad("binary-unmarshal-input-changed", "UnmarshalBinary changed its input %x -> %x (second decode %x err=%v)", rev, in, got2, err2)
		}
		sc := append([]byte{}, b...)
		ic.scan(sc)
		after1 = append([]byte{}, sc...)
		got3, err3 := ic.scan(sc)
		if !bytes.Equal(after1, b) || !bytes.Equal(sc, b) || err3 != nil || !bytes.Equal(got3, b) {
			bad("scan-input-changed", "Scan changed its source %x -> %x (second Scan %x err=%v)", b, sc, got3, err3)
		}
	}
	// database
	v, err := ic.value(b)
	vb, ok := v.([]byte)
	if err != nil || !ok || !bytes.Equal(vb, b) {
		bad("value", "Value()=%v err=%v", v, err)
	} else if got, err := ic.scan(append([]byte{}, vb...)); err != nil || !bytes.Equal(got, b) {
		bad("scan", "Scan(Value())=%x err=%v", got, err)
	}
	// wrong lengths
	for ln := 0; ln <= 2*ic.size+2; ln++ {
		if ln == ic.size {
			continue
		}
		x := r.Bytes(ln)
		c.Eval(4)
		if _, err := ic.unmarshalText(hex.EncodeToString(x)); err == nil {
			bad(fmt.Sprintf("text-wrong-length-accepted|len=%d", ln), "UnmarshalText accepted %d bytes (%x)", ln, x)
		}
		if _, err := ic.unmarshalText("0x" + hex.EncodeToString(x)); err == nil {
			bad(fmt.Sprintf("text-wrong-length-accepted|len=%d", ln), "UnmarshalText accepted 0x + %d bytes", ln)
		}
		if _, err := ic.unmarshalBin(x); err == nil {
			bad(fmt.Sprintf("binary-wrong-length-accepted|len=%d", ln), "UnmarshalBinary accepted %d bytes", ln)
		}
		if _, err := ic.scan(x); err == nil {
			bad(fmt.Sprintf("scan-wrong-length-accepted|len=%d", ln), "Scan accepted %d bytes", ln)
		}
		// wrong-length byte strings that look like something: ASCII hex digits (the text form handed
		// over as bytes), zeros, ones
		ascii := []byte(hex.EncodeToString(r.Bytes(ln)))[:ln]
		if ln == 2*ic.size {
			ascii = []byte(hex.EncodeToString(b))
		}
		if ln == 2*ic.size+2 {
			ascii = []byte("0x" + hex.EncodeToString(b)) // the text form with its prefix, handed over as bytes
		}
		for _, y := range [][]byte{ascii, make([]byte, ln), bytes.Repeat([]byte{0xff}, ln), bytes.Repeat([]byte{'0'}, ln)} {
			c.Eval(2)
			if got, err := ic.unmarshalBin(append([]byte{}, y...)); err == nil {
				bad(fmt.Sprintf("binary-wrong-length-accepted|len=%d", ln), "UnmarshalBinary accepted %d bytes %q as %x", ln, y, got)
			}
			if got, err := ic.scan(append([]byte{}, y...)); err == nil {
				bad(fmt.Sprintf("scan-wrong-length-accepted|len=%d", ln), "Scan accepted %d bytes %q as %x", ln, y, got)
			}
		}
		c.Shape("repr-len", ic.name, ln)
	}
	// hex text of exactly 2n characters that is a longer value minus prefix confusion
	for _, s := range []string{hex.EncodeToString(r.Bytes(ic.size + 1)), "0x", "", "zz", hex.EncodeToString(b)[1:], "0X" + hex.EncodeToString(b)} {
		c.Eval(1)
		got, err := ic.unmarshalText(s)
		if err == nil && !(strings.HasPrefix(s, "0X") && bytes.Equal(got, b)) {
			// "0X.." is not a documented prefix: refused, or accepted as the value it spells; the others have
			// the wrong length
			bad("text-malformed-accepted", "UnmarshalText(%q) accepted as %x", s, got)
		}
	}
	// JSON (the backend interface carries identifiers as JSON strings): the text form inside a JSON string,
	// also when the peer's encoder escapes characters
	{
		plain := hex.EncodeToString(b)
		esc := ""
		for i := 0; i < len(plain); i++ {
			if i%3 == 1 {
				esc += fmt.Sprintf("\\u%04x", plain[i])
			} else {
				esc += string(plain[i])
			}
		}
		for _, doc := range []string{`"` + plain + `"`, `"` + esc + `"`, ` "` + plain + `" `} {
			c.Eval(1)
			got, err := c11JSON(ic.name, []byte(doc))
			if err != nil || !bytes.Equal(got, b) {
				bad("json-unmarshal", "json.Unmarshal(%s) = %x err=%v", doc, got, err)
			}
		}
	}
	// an identifier that already holds a value is not damaged by an input that is rejected
	// (one nibble too long, a bad digit late in the string, a wrong-length byte string)
	hx := hex.EncodeToString(r.Bytes(ic.size))
	for how, ins := range [][][]byte{
		{[]byte(hx + "a"), []byte("0x" + hx + "a"), []byte(hx[:len(hx)-1] + "z"), []byte(hx[:len(hx)-2]), []byte(hx + "abcd")},
		{r.Bytes(ic.size + 1), r.Bytes(ic.size - 1), r.Bytes(2 * ic.size)},
		{r.Bytes(ic.size + 1), r.Bytes(ic.size - 1), []byte(hx)},
	} {
		for _, in := range ins {
			c.Eval(1)
			after, err := c11Into(ic.name, b, how, append([]byte{}, in...))
			if err == nil {
				bad("malformed-accepted-into-used-value", "input %q (route %d) accepted", in, how)
			} else if !bytes.Equal(after, b) {
				bad(fmt.Sprintf("rejected-input-changed-receiver|route=%d", how), "input %q was rejected (%v) but the receiver changed from %x to %x", in, err, b, after)
			}
		}
	}
	// sources other than the []byte the library itself stores are not the property's business (a driver may
	// hand over text): they must not panic, and text that is accepted must be the identifier it spells
	for _, src := range []interface{}{nil, hex.EncodeToString(b), 42, [4]byte{}} {
		c.Eval(1)
		var got []byte
		var err error
		if p, msg := core.Guard(func() { got, err = ic.scan(src) }); p {
			bad("scan-panic", "Scan(%T): %s", src, msg)
		} else if _, isText := src.(string); isText && err == nil && !bytes.Equal(got, b) {
			bad("scan-text-wrong-value", "Scan(%q) accepted as %x", src, got)
		}
	}
	c.Shape("repr", ic.name)
}

func runC11(c *core.Ctx) {
	// --- prefix algebra
	var nids []uint32
	if c.Thorough() {
		c.ProgressStride(4096)
		for v := uint32(0); v < 1<<24; v++ {
			if c.Mine("netid", int64(v)) {
				nids = nil
				r := c.RNG("netid", int64(v>>12))
				c11CheckNetID(c, v, []uint32{0, 0xffffffff, r.U32() ^ v*2654435761, r.U32()})
			}
		}
		c.Exhaustive("netid (all 2^24 NetIDs)")
	} else {
		for v := uint32(0); v < 1<<24; v += 97 {
			nids = append(nids, v)
		}
		for t := uint32(0); t < 8; t++ {
			base := t << 21
			for _, k := range []uint32{0, 1, 0x3f, 0x40, 0x1ff, 0x200, 0x7ff, 0x800, 0xfff, 0x1000, 0x1fff, 0x2000, 0x7fff, 0x8000, 0x1ffff, 0x20000, 0x1fffff, 0x155555, 0x0aaaaa} {
				nids = append(nids, base|k&(1<<21-1))
			}
		}
		for i, v := range nids {
			if !c.Mine("netid", int64(i)) {
				continue
			}
			r := c.RNG("netid", int64(i))
			c11CheckNetID(c, v, []uint32{0, 0xffffffff, r.U32(), r.U32()})
			if c.WantSample("netid") {
				var da lorawan.DevAddr
				da.SetAddrPrefix(netIDFrom(v))
				c.Sample("netid", map[string]interface{}{"netid": fmt.Sprintf("%06x", v), "type": spec.NetIDType(v), "addr_of_zero": da.String()})
			}
		}
	}
	c.ProgressStride(1)
	// DevAddr 0xFF...... carries none of the eight type prefixes: it must not be given a type and it is a
	// member of no NetID (what NwkID() returns for it - nil, empty - is not the property's business)
	if c.Whole("addr-notype") {
		da := lorawan.DevAddr{0xff, 1, 2, 3}
		c.Eval(2)
		if t := da.NetIDType(); t >= 0 && t <= 7 {
			c.Violate("C11|addr-notype", "DevAddr ff010203 (no type prefix): NetIDType=%d", t)
		}
		for t := uint32(0); t < 8; t++ {
			for _, id := range []uint32{0, 1, 0x3, 0x7f, 0x1ffff, 0x1fffff} {
				c.Eval(1)
				if da.IsNetID(netIDFrom(t<<21 | id)) {
					c.Violate("C11|addr-notype-member", "DevAddr ff010203 (no type prefix) is reported as a member of NetID %06x", t<<21|id)
				}
			}
		}
	}

	// --- representations
	m := c.N(4000, 2000000)
	for i := int64(0); i < m; i++ {
		if !c.Mine("repr", i) {
			continue
		}
		r := c.RNG("repr", i)
		c11Representations(c, r, idCodecs[i%4])
		if i%3 == 0 {
			c11Returned(c, r)
		}
	}
}
