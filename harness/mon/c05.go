package mon

import (
	"bytes"
	"fmt"

	"github.com/brocaar/lorawan"

	"lwverif/core"
	"lwverif/spec"
)

func init() {
	core.Register(&core.Property{
		ID:   "C05",
		Rule: "recorded sender/receiver call histories [build, EncryptFRMPayload, EncryptFOpts(1.1), Set*DataMIC, MarshalBinary | UnmarshalBinary, set 32-bit FCnt, Validate*DataMIC, DecryptFOpts or DecodeFOpts, DecryptFRMPayload] on generated frames (MAC commands in FOpts, on port 0, or application bytes; both directions; both MAC versions; FCnt with non-zero upper half; 1.1 ConfFCnt/TxDr/TxCh). Oracle 1: the receiver's commands/bytes equal the sender's (also for a receiver that re-uses one PHYPayload value across successive frames). Oracle 2: for single-bit corruptions of the wire bytes (quick: every bit of the first 13 bytes and of the MIC + 16 seeded payload bits; thorough: every bit) and single-parameter mismatches on the receiver (each MIC key, FCnt upper half, FCnt off by 65536, ConfFCnt, TxDr, TxCh, MAC version, direction) the receiver accepts exactly when the spec MIC (harness CMAC over the received bytes with the receiver's parameters) equals the received MIC. Distinct = (direction, version, where the MAC commands are, tamper class / bit region, verdict).",
		Assumptions: []string{
			"same CMAC / keystream models as C02 and C03",
			"key usage per LoRaWAN 1.1: FRMPayload with AppSKey (FPort>0) or NwkSEncKey (FPort 0); FOpts with NwkSEncKey; in 1.0 all network keys are the NwkSKey and FOpts are not encrypted",
		},
		MinEvals: 1000,
		Run:      runC05,
	})
}

type c05Keys struct {
	app, enc, fInt, sInt [16]byte
}

type c05Rx struct {
	v11        bool
	up         bool // direction the receiver expects
	fcntHigh   uint32
	conf       uint32
	txDR, txCh byte
	keys       c05Keys
}

// c05Receive runs the receiver sequence; ok=false means the receiver rejected
// the frame (decode error, validation error or MIC mismatch).
func c05Receive(wire []byte, rx c05Rx) (phy lorawan.PHYPayload, ok bool, stage string, panicMsg string) {
	var err error
	var valid bool
	p, msg := core.Guard(func() {
		if err = phy.UnmarshalBinary(append([]byte{}, wire...)); err != nil {
			stage = "unmarshal"
			return
		}
		mp, isData := phy.MACPayload.(*lorawan.MACPayload)
		if isData {
			mp.FHDR.FCnt = rx.fcntHigh<<16 | mp.FHDR.FCnt&0xffff
		}
		if rx.up {
			valid, err = phy.ValidateUplinkDataMIC(macVer(rx.v11), rx.conf, rx.txDR, rx.txCh, lorawan.AES128Key(rx.keys.fInt), lorawan.AES128Key(rx.keys.sInt))
		} else {
			valid, err = phy.ValidateDownlinkDataMIC(macVer(rx.v11), rx.conf, lorawan.AES128Key(rx.keys.sInt))
		}
		stage = "validate"
	})
	if p {
		return phy, false, "panic", msg
	}
	return phy, err == nil && valid, stage, ""
}

// c05SpecAccept is the model's verdict on received bytes with receiver parameters.
func c05SpecAccept(wire []byte, rx c05Rx) bool {
	if len(wire) < 12 {
		return false
	}
	msg := wire[:len(wire)-4]
	var mic [4]byte
	copy(mic[:], wire[len(wire)-4:])
	da := [4]byte{wire[4], wire[3], wire[2], wire[1]}
	ack := wire[5]&0x20 != 0
	fcnt := rx.fcntHigh<<16 | uint32(wire[6]) | uint32(wire[7])<<8
	var want [4]byte
	if rx.up {
		want = spec.UplinkMIC(rx.v11, rx.conf, rx.txDR, rx.txCh, rx.keys.fInt, rx.keys.sInt, ack, da, fcnt, msg)
	} else {
		want = spec.DownlinkMIC(rx.v11, rx.conf, rx.keys.sInt, ack, da, fcnt, msg)
	}
	return want == mic
}

// registration calls that must be refused, made between sending and receiving (nil when the case has no proprietary command)
var c05Refused func()

func runC05(c *core.Ctx) {
	var sess struct {
		on, up, v11 bool
		k           c05Keys
		addr        [4]byte
		fcnt        uint32
	}
	for k := int64(0); k < 6; k++ {
		if c.Mine("special-mic", k) {
			// a genuine frame whose correct MIC is 00000000 / ffffffff must be accepted like any other
			c02SpecialMIC(c, c.RNG("special-mic", k), [][2]byte{{0, 0}, {0xff, 0xff}}[k%2], "C05")
		}
	}
	var prevTx *lorawan.PHYPayload
	var prevFCtrl lorawan.FCtrl
	havePrevFCtrl := false
	n := c.N(3000, 400000)
	for i := int64(0); i < n; i++ {
		if !c.Mine("exchange", i) {
			continue
		}
		r := c.RNG("exchange", i)
		lorawan.VerifResetProprietary() // every case starts from the same (empty) registry
		o := anyData()
		o.rawFOpts = 0
		o.macInFRM = 1
		o.maxFRM = 120
		if i%8 == 5 {
			o.maxFRM = 242 // full-size frames (up to 270 bytes with FOpts): whatever has a fixed-size buffer shows only here
		}
		d := genDataCase(r, o)
		if d.Spec.FPort == 0 && len(d.Spec.FRMPayload) == 0 {
			d.FRM, d.Spec.FRMPayload = genMACStream(r, d.Spec.Uplink(), 1+r.Intn(20), false)
			d.FRMIsMAC = true
		}
		// make the upper half of FCnt matter
		if d.Spec.FCnt < 1<<16 {
			d.Spec.FCnt |= uint32(1+r.Intn(0xfffe)) << 16
		}
		up := d.Spec.Uplink()
		// a deployment with a proprietary MAC command: registered before the exchange, carried in the
		// frame, and between sending and receiving somebody makes registration calls that are refused
		proprietary := false
		if r.Chance(1, 6) {
			cid, size := byte(0xE0+r.Intn(4)), 1+r.Intn(3)
			pb := r.Bytes(size)
			cmd := &lorawan.MACCommand{CID: lorawan.CID(cid), Payload: &lorawan.ProprietaryMACCommandPayload{Bytes: append([]byte{}, pb...)}}
			raw := append([]byte{cid}, pb...)
			switch {
			case len(d.Spec.FOpts) > 0 && len(d.Spec.FOpts)+len(raw) <= 15:
				d.FOpts = append([]lorawan.Payload{cmd}, d.FOpts...)
				d.Spec.FOpts = append(raw, d.Spec.FOpts...)
				proprietary = true
			case d.FRMIsMAC && len(d.Spec.FRMPayload) > 0 && len(d.Spec.FRMPayload)+len(raw) <= 200:
				d.FRM = append([]lorawan.Payload{cmd}, d.FRM...)
				d.Spec.FRMPayload = append(raw, d.Spec.FRMPayload...)
				proprietary = true
			}
			if proprietary {
				lorawan.VerifResetProprietary()
				lorawan.RegisterProprietaryMACCommand(up, lorawan.CID(cid), size)
				refused := func() {
					lorawan.RegisterProprietaryMACCommand(up, lorawan.CID(cid), -1-r.Intn(3))
					lorawan.RegisterProprietaryMACCommand(up, lorawan.CID(r.Intn(0x80)), size+1)
					lorawan.RegisterProprietaryMACCommand(!up, lorawan.CID(cid), -1)
				}
				c05Refused = refused
			}
		}
		if !proprietary {
			c05Refused = nil
		}
		v11 := r.Bool()
		var k c05Keys
		k.app, k.enc, k.fInt, k.sInt = key16(r), key16(r), key16(r), key16(r)
		if !v11 {
			k.enc, k.sInt = k.fInt, k.fInt
		}
		// sessions: consecutive frames of one device - same keys, same address, the counter going up by
		// one from frame to frame (across the 16-bit roll-over too) - as opposed to unrelated frames
		if sess.on && sess.up == up && i%3 != 0 {
			k, v11 = sess.k, sess.v11
			d.Spec.DevAddr = sess.addr
			d.Spec.FCnt = sess.fcnt + 1
			c.Count("exchanges.continuing-a-session", 1)
		} else if r.Chance(1, 3) {
			d.Spec.FCnt = []uint32{0, 0xfffd, 0x1fffd, 0xfffffffd, d.Spec.FCnt}[r.Intn(5)]
		}
		sess.on, sess.up, sess.k, sess.v11, sess.addr, sess.fcnt = true, up, k, v11, d.Spec.DevAddr, d.Spec.FCnt
		conf, txDR, txCh := r.U32Edge(), r.Byte(), r.Byte()
		where := "app"
		if len(d.Spec.FOpts) > 0 {
			where = "fopts"
		}
		if d.Spec.FPort == 0 {
			where += "+port0"
		}
		dir := "down"
		if up {
			dir = "up"
		}

		// ---- sender
		tx := d.Lib()
		if prevTx != nil && i%5 == 2 {
			// a device that keeps one PHYPayload / MACPayload object and fills it in again for every frame it sends
			fresh := tx.MACPayload.(*lorawan.MACPayload)
			old := prevTx.MACPayload.(*lorawan.MACPayload)
			old.FHDR, old.FPort, old.FRMPayload = fresh.FHDR, fresh.FPort, fresh.FRMPayload
			prevTx.MHDR, prevTx.MIC = tx.MHDR, lorawan.MIC{}
			tx = *prevTx
			c.Count("exchanges.sender-object-reused", 1)
		}
		keepTx := tx
		prevTx = &keepTx
		if havePrevFCtrl && i%4 == 1 {
			// a network server answers by copying the FCtrl value of the frame it received last and setting
			// the flags it wants (whatever else that value carries along must not reach the wire)
			want := tx.MACPayload.(*lorawan.MACPayload).FHDR.FCtrl
			fc := prevFCtrl
			fc.ADR, fc.ADRACKReq, fc.ACK, fc.FPending, fc.ClassB = want.ADR, want.ADRACKReq, want.ACK, want.FPending, want.ClassB
			tx.MACPayload.(*lorawan.MACPayload).FHDR.FCtrl = fc
			c.Count("exchanges.sender-built-on-a-received-fctrl", 1)
		}
		frmKey := k.app
		if d.Spec.FPort == 0 {
			frmKey = k.enc
		}
		var wire []byte
		var err error
		var trace []string
		c.Eval(1)
		// the steps that do not depend on one another are taken in either order, and calls that only
		// inspect the frame (a log line, a dry-run serialisation, a MIC check with some other key)
		// may happen anywhere in between
		foptsFirst, rxFRMFirst := r.Bool(), r.Bool()
		peek := func(f *lorawan.PHYPayload) {
			switch r.Intn(6) {
			case 0:
				trace = append(trace, "(MarshalBinary)")
				f.MarshalBinary()
			case 1:
				trace = append(trace, "(MarshalText)")
				f.MarshalText()
			case 2:
				trace = append(trace, "(ValidateMIC)")
				if up {
					f.ValidateUplinkDataMIC(macVer(v11), conf+1, txDR, txCh, lorawan.AES128Key(k.app), lorawan.AES128Key(k.sInt))
				} else {
					f.ValidateDownlinkDataMIC(macVer(v11), conf+1, lorawan.AES128Key(k.app))
				}
			}
		}
		p, msg := core.Guard(func() {
			encFRM := func() bool {
				trace = append(trace, "EncryptFRMPayload")
				err = tx.EncryptFRMPayload(lorawan.AES128Key(frmKey))
				return err == nil
			}
			encFOpts := func() bool {
				if v11 {
					trace = append(trace, "EncryptFOpts")
					err = tx.EncryptFOpts(lorawan.AES128Key(k.enc))
				}
				return err == nil
			}
			peek(&tx)
			if foptsFirst {
				if !encFOpts() {
					return
				}
				peek(&tx)
				if !encFRM() {
					return
				}
			} else {
				if !encFRM() {
					return
				}
				peek(&tx)
				if !encFOpts() {
					return
				}
			}
			peek(&tx)
			trace = append(trace, "SetMIC")
			if up {
				err = tx.SetUplinkDataMIC(macVer(v11), conf, txDR, txCh, lorawan.AES128Key(k.fInt), lorawan.AES128Key(k.sInt))
			} else {
				err = tx.SetDownlinkDataMIC(macVer(v11), conf, lorawan.AES128Key(k.sInt))
			}
			if err != nil {
				return
			}
			peek(&tx)
			trace = append(trace, "MarshalBinary")
			wire, err = tx.MarshalBinary()
			if err == nil {
				if again, e2 := tx.MarshalBinary(); e2 != nil || !bytes.Equal(again, wire) {
					err = fmt.Errorf("second MarshalBinary gives %x (err %v), first gave %x", again, e2, wire)
				}
			}
		})
		if p || err != nil {
			c.Violate("C05|sender-failed|"+trace[len(trace)-1], "sender sequence %v failed: %v %s | frame %s", trace, err, msg, short(core.Dump(d.Lib()), 500))
			continue
		}
		if c.WantSample("exchange") {
			c.Sample("exchange", map[string]interface{}{"direction": dir, "v11": v11, "fcnt": d.Spec.FCnt, "where": where, "sender_calls": trace, "wire": core.Hex(wire)})
		}

		if c05Refused != nil {
			c05Refused()
			c.Count("exchanges.with-proprietary-command-and-refused-registrations", 1)
		}
		// ---- receiver, untampered
		rx := c05Rx{v11: v11, up: up, fcntHigh: d.Spec.FCnt >> 16, conf: conf, txDR: txDR, txCh: txCh, keys: k}
		got, ok, stage, pm := c05Receive(wire, rx)
		c.Eval(1)
		if !ok {
			c.Violate(fmt.Sprintf("C05|receiver-rejects-untampered|%s|v11=%v|%s", dir, v11, stage), "receiver with the same keys and counters rejects at %s %s | wire %x", stage, pm, wire)
			continue
		}
		// the wire itself must carry the spec MIC (ties C05 to the spec, not only to self-consistency)
		if !c05SpecAccept(wire, rx) {
			c.Violate(fmt.Sprintf("C05|wire-mic-not-spec|%s|v11=%v", dir, v11), "wire %x does not carry the spec MIC", wire)
		}
		p, msg = core.Guard(func() {
			decFOpts := func() bool {
				stage = "fopts"
				if v11 {
					err = got.DecryptFOpts(lorawan.AES128Key(k.enc))
				} else {
					err = got.DecodeFOptsToMACCommands()
				}
				return err == nil
			}
			decFRM := func() bool {
				stage = "frmpayload"
				err = got.DecryptFRMPayload(lorawan.AES128Key(frmKey))
				return err == nil
			}
			if rxFRMFirst {
				_ = decFRM() && decFOpts()
			} else {
				_ = decFOpts() && decFRM()
			}
		})
		if p || err != nil {
			c.Violate(fmt.Sprintf("C05|receiver-decrypt-failed|%s|v11=%v|%s", dir, v11, stage), "%v %s | wire %x", err, msg, wire)
			continue
		}
		gmp := got.MACPayload.(*lorawan.MACPayload)
		prevFCtrl, havePrevFCtrl = gmp.FHDR.FCtrl, true
		if len(d.Spec.FOpts) > 0 {
			if g, w := core.Dump(gmp.FHDR.FOpts), core.Dump(d.FOpts); g != w {
				c.Violate(fmt.Sprintf("C05|fopts-differ|%s|v11=%v", dir, v11), "receiver FOpts %s\nsender FOpts   %s", short(g, 400), short(w, 400))
			}
		}
		if d.FRMIsMAC && len(d.Spec.FRMPayload) > 0 {
			if g, w := core.Dump(gmp.FRMPayload), core.Dump(d.FRM); g != w {
				c.Violate(fmt.Sprintf("C05|port0-commands-differ|%s|v11=%v", dir, v11), "receiver %s\nsender   %s", short(g, 400), short(w, 400))
			}
		} else {
			gb, _ := payloadBytes(gmp.FRMPayload)
			if !bytes.Equal(gb, d.Spec.FRMPayload) {
				c.Violate(fmt.Sprintf("C05|payload-differs|%s|v11=%v", dir, v11), "receiver %x sender %x", gb, d.Spec.FRMPayload)
			}
		}
		if gmp.FHDR.FCnt != d.Spec.FCnt || (gmp.FPort == nil) != (d.Spec.FPort < 0) || (gmp.FPort != nil && int(*gmp.FPort) != d.Spec.FPort) {
			c.Violate("C05|header-differs", "FCnt %d/%d FPort %v/%d", gmp.FHDR.FCnt, d.Spec.FCnt, gmp.FPort, d.Spec.FPort)
		}
		c.Shape("exchange", dir, v11, where)

		// ---- a receiver that re-uses one PHYPayload value for successive frames
		{
			o2 := anyData()
			o2.mtype = int(d.Spec.MType)
			o2.maxFRM = 40
			prev := genDataCase(r, o2)
			var pm [4]byte
			r.Fill(pm[:])
			var reused lorawan.PHYPayload
			c.Eval(2)
			perr := reused.UnmarshalBinary(append(prev.Spec.Msg(), pm[:]...))
			var valid bool
			var verr error
			pp, pmsg := core.Guard(func() {
				if verr = reused.UnmarshalBinary(append([]byte{}, wire...)); verr != nil {
					return
				}
				mp := reused.MACPayload.(*lorawan.MACPayload)
				mp.FHDR.FCnt = rx.fcntHigh<<16 | mp.FHDR.FCnt&0xffff
				if up {
					valid, verr = reused.ValidateUplinkDataMIC(macVer(v11), conf, txDR, txCh, lorawan.AES128Key(k.fInt), lorawan.AES128Key(k.sInt))
				} else {
					valid, verr = reused.ValidateDownlinkDataMIC(macVer(v11), conf, lorawan.AES128Key(k.sInt))
				}
			})
			if perr == nil && (pp || verr != nil || !valid) {
				c.Violate(fmt.Sprintf("C05|reused-receiver-rejects|%s", dir), "a receiver that decoded %x before into the same PHYPayload value rejects the valid frame %x (valid=%v err=%v %s)", prev.Spec.Msg(), wire, valid, verr, pmsg)
			}
			c.Shape("reused-receiver", dir, len(prev.Spec.FOpts) > 0, prev.portKind, where)
		}

		// ---- tampering: single bits of the wire
		var bitsToFlip []int
		if c.Thorough() {
			for b := 0; b < len(wire)*8; b++ {
				bitsToFlip = append(bitsToFlip, b)
			}
		} else {
			for b := 0; b < 13*8 && b < len(wire)*8; b++ {
				bitsToFlip = append(bitsToFlip, b)
			}
			for b := (len(wire) - 4) * 8; b < len(wire)*8; b++ {
				bitsToFlip = append(bitsToFlip, b)
			}
			for k := 0; k < 16 && len(wire) > 17; k++ {
				bitsToFlip = append(bitsToFlip, 13*8+r.Intn((len(wire)-17)*8))
			}
		}
		for _, b := range bitsToFlip {
			t := append([]byte{}, wire...)
			t[b/8] ^= 1 << uint(b%8)
			_, acc, _, pm := c05Receive(t, rx)
			c.Eval(1)
			if pm != "" {
				c.Violate("C05|tamper-panic", "bit %d of %x: %s", b, wire, short(pm, 300))
				continue
			}
			model := c05SpecAccept(t, rx)
			region := "payload"
			switch {
			case b < 8:
				region = fmt.Sprintf("mhdr-bit%d", b)
			case b < 40:
				region = "devaddr"
			case b < 48:
				region = fmt.Sprintf("fctrl-bit%d", b-40)
			case b < 64:
				region = "fcnt"
			case b >= (len(wire)-4)*8:
				region = "mic"
			}
			if acc != model {
				c.Violate(fmt.Sprintf("C05|tampered-verdict|%s|lib-accepts=%v", region, acc), "bit %d (%s) flipped: receiver accepts=%v, spec MIC over the received bytes matches=%v | %s v11=%v wire %x", b, region, acc, model, dir, v11, t)
			}
			c.Shape("tamper", dir, v11, region, acc)
		}
		// ---- tampering: receiver parameters
		type rxPert struct {
			name string
			do   func(x *c05Rx)
		}
		perts := []rxPert{
			{"fint-key", func(x *c05Rx) { flipBit(x.keys.fInt[:], r) }},
			{"sint-key", func(x *c05Rx) { flipBit(x.keys.sInt[:], r) }},
			{"fcnt-high-bit", func(x *c05Rx) { x.fcntHigh ^= 1 << uint(r.Intn(16)) }},
			{"fcnt-high+1", func(x *c05Rx) { x.fcntHigh = (x.fcntHigh + 1) & 0xffff }},
			{"fcnt-high-zero", func(x *c05Rx) { x.fcntHigh = 0 }},
			{"conf-low", func(x *c05Rx) { x.conf ^= 1 << uint(r.Intn(16)) }},
			{"conf-high", func(x *c05Rx) { x.conf ^= 1 << uint(16+r.Intn(16)) }},
			{"txdr", func(x *c05Rx) { x.txDR ^= byte(1 + r.Intn(255)) }},
			{"txch", func(x *c05Rx) { x.txCh ^= byte(1 + r.Intn(255)) }},
			{"version", func(x *c05Rx) { x.v11 = !x.v11 }},
			{"direction", func(x *c05Rx) { x.up = !x.up }},
		}
		for _, pt := range perts {
			x := rx
			pt.do(&x)
			_, acc, _, pmsg := c05Receive(wire, x)
			c.Eval(1)
			if pmsg != "" {
				c.Violate("C05|param-panic|"+pt.name, "%s", short(pmsg, 300))
				continue
			}
			model := c05SpecAccept(wire, x)
			if acc != model {
				c.Violate(fmt.Sprintf("C05|param-verdict|%s|%s|v11=%v|lib-accepts=%v", pt.name, dir, v11, acc), "receiver parameter %s changed: accepts=%v, spec says MIC matches=%v | ack=%v wire %x", pt.name, acc, model, d.Spec.ACK, wire)
			}
			c.Shape("param", dir, v11, pt.name, acc)
		}
	}
}
