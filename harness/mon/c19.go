package mon

import (
	"bytes"
	"fmt"
	"sync"

	"github.com/brocaar/lorawan/applayer/fragmentation"

	"lwverif/core"
	"lwverif/spec"
)

func init() {
	core.Register(&core.Property{
		ID:          "C19",
		Rule:        "fragmentation.Encode on fragment size 1..64 x fragment count 1..300 x redundancy 0..100 with seeded random data, plus firmware-update-sized sessions (fragment size 48..242, 400..2047 fragments, redundancy up to 300) (quick: 3000 sampled (size,count,redundancy) triples + every count 1..130 at sizes 4 and 10 + every size 1..64 at counts 8 and 10; thorough: the complete size x count grid once plus 200k erasure trials). Oracles: systematic prefix, parity row == XOR of the rows selected by an independent implementation of the TS004 matrix_line/prbs23 pseudo code, linearity Encode(a^b)=Encode(a)^Encode(b), and an independent GF(2) Gaussian-elimination decoder that must rebuild the block from every full-rank random erasure pattern. Eight different sessions encoded 60 times each from eight goroutines at once must each give what the same call gives alone. Invalid sizes (0, negative, non-dividing) and negative redundancy must give an error or no parity, never a panic. Distinct = (size, count power-of-two?, count, redundancy class).",
		Assumptions: []string{"TS004-1.0.0 §8 pseudo code (matrix_line, prbs23) as transcribed in harness/spec/frag.go"},
		MinEvals:    500,
		Run:         runC19,
	})
}

func c19Case(c *core.Ctx, r *core.RNG, size, count, red int, erasure bool) {
	data := r.Bytes(size * count)
	if r.Chance(1, 5) {
		// firmware images are not random: zero padding at the end, runs of one byte, fragments that are equal
		// to one another, fragments whose 32- / 64-bit words add up or XOR to zero (anything that looks
		// "empty" to a checksum but is not)
		switch r.Intn(6) {
		case 0:
			for i := len(data) - 1 - r.Intn(size+1); i >= 0 && i < len(data); i++ {
				data[i] = 0
			}
		case 1:
			for i := range data {
				data[i] = data[0]
			}
		case 2:
			if count > 1 {
				copy(data[size:2*size], data[:size])
			}
		case 3:
			f := r.Intn(count)
			frag := data[f*size : (f+1)*size]
			for w := 8; w <= len(frag)/2; w *= 2 {
				if len(frag)%(2*w) == 0 || w == 8 && len(frag) >= 16 {
					// second half-word block = two's complement of the first: the words sum to zero
					var carry uint16 = 1
					for i := 0; i < w && w+i < len(frag); i++ {
						v := uint16(^frag[i]) + carry
						frag[w+i] = byte(v)
						carry = v >> 8
					}
					for i := 2 * w; i < len(frag); i++ {
						frag[i] = 0
					}
					break
				}
			}
		case 4:
			f := r.Intn(count)
			frag := data[f*size : (f+1)*size]
			for i := range frag {
				frag[i] = 0
			}
			if size >= 16 {
				frag[7], frag[15] = 0x80, 0x80 // two 64-bit words of 2^63: sum 0 mod 2^64, XOR 0
			}
		default:
			for i := range data {
				data[i] = 0
			}
			data[r.Intn(len(data))] = 1 << uint(r.Intn(8))
		}
	}
	orig := append([]byte{}, data...)
	var rows [][]byte
	var err error
	c.Eval(1)
	if p, msg := core.Guard(func() { rows, err = fragmentation.Encode(data, size, red) }); p {
		c.Violate("C19|panic|valid-input", "size=%d count=%d red=%d: %s", size, count, red, msg)
		return
	}
	if err != nil {
		c.Violate("C19|valid-refused", "size=%d count=%d red=%d: %v", size, count, red, err)
		return
	}
	if size*count <= 4096 {
		// the same call again, and a call on a copy, give the same fragments
		if r2, e2 := fragmentation.Encode(append([]byte{}, orig...), size, red); e2 != nil || core.Dump(r2) != core.Dump(rows) {
			c.Violate("C19|second-identical-call-differs", "size=%d count=%d red=%d: a second call with the same arguments returns different fragments (%v)", size, count, red, e2)
		}
	}
	pow := isPow2i(count)
	if len(rows) != count+red {
		c.Violate("C19|row-count", "size=%d count=%d red=%d: %d rows", size, count, red, len(rows))
		return
	}
	for i := 0; i < count; i++ {
		if !bytes.Equal(rows[i], orig[i*size:(i+1)*size]) {
			c.Violate("C19|systematic", "size=%d count=%d: data fragment %d altered or out of order", size, count, i)
			return
		}
	}
	vecs := make([][]uint64, 0, count+red)
	for y := 0; y < red; y++ {
		line := spec.MatrixLine(y+1, count)
		want := make([]byte, size)
		for x := 0; x < count; x++ {
			if line[x/64]>>uint(x%64)&1 == 1 {
				for k := 0; k < size; k++ {
					want[k] ^= orig[x*size+k]
				}
			}
		}
		if len(rows[count+y]) != size || !bytes.Equal(rows[count+y], want) {
			c.Violate(fmt.Sprintf("C19|parity|pow2=%v", pow), "size=%d count=%d red=%d: parity fragment %d differs from the TS004 matrix line\n got  %x\n want %x", size, count, red, y+1, rows[count+y], want)
			return
		}
		vecs = append(vecs, line)
	}
	// linearity
	if red > 0 {
		b := r.Bytes(size * count)
		x := make([]byte, len(b))
		for i := range b {
			x[i] = orig[i] ^ b[i]
		}
		rb, e1 := fragmentation.Encode(append([]byte{}, b...), size, red)
		rx, e2 := fragmentation.Encode(x, size, red)
		c.Eval(2)
		if e1 != nil || e2 != nil || len(rb) != len(rows) || len(rx) != len(rows) {
			c.Violate("C19|linearity", "size=%d count=%d red=%d: %v %v", size, count, red, e1, e2)
		} else {
			for i := range rows {
				for k := 0; k < size; k++ {
					if rx[i][k] != rows[i][k]^rb[i][k] {
						c.Violate(fmt.Sprintf("C19|linearity|pow2=%v", pow), "size=%d count=%d red=%d: Encode(a^b) != Encode(a)^Encode(b) at row %d", size, count, red, i)
						i = len(rows) - 1
						break
					}
				}
			}
		}
	}
	// erasure decoding with an independent decoder
	if erasure && red > 0 {
		words := (count + 63) / 64
		for trial := 0; trial < 3; trial++ {
			var v [][]uint64
			var p [][]byte
			lost := 0
			for i := 0; i < count+red; i++ {
				// lose up to ~red/2 data fragments
				if r.Intn(count+red) < red/2+1 && lost < red {
					lost++
					continue
				}
				var vec []uint64
				if i < count {
					vec = make([]uint64, words)
					vec[i/64] |= 1 << uint(i%64)
				} else {
					vec = vecs[i-count]
				}
				v = append(v, vec)
				p = append(p, rows[i])
			}
			dec, ok := spec.GF2Solve(count, size, v, p)
			c.Eval(1)
			if !ok {
				c.Count("erasure.rank-deficient", 1)
				continue
			}
			c.Count("erasure.decoded", 1)
			for i := 0; i < count; i++ {
				if !bytes.Equal(dec[i], orig[i*size:(i+1)*size]) {
					c.Violate("C19|decoder", "size=%d count=%d red=%d lost=%d: independent decoder rebuilt a different block (fragment %d)", size, count, red, lost, i)
					break
				}
			}
		}
	}
	redClass := "0"
	switch {
	case red > 50:
		redClass = ">50"
	case red > 10:
		redClass = "11-50"
	case red > 0:
		redClass = "1-10"
	}
	c.Shape(size, count, redClass)
	if c.WantSample("encode") && red > 0 && count > 2 {
		c.Sample("encode", map[string]interface{}{"fragment_size": size, "fragments": count, "redundancy": red, "parity_1": core.Hex(rows[count])})
	}
}

func isPow2i(n int) bool { return n > 0 && n&(n-1) == 0 }

func runC19(c *core.Ctx) {
	idx := int64(0)
	run := func(size, count, red int, er bool) {
		idx++
		if !c.Mine("encode", idx) {
			return
		}
		c19Case(c, c.RNG("encode", idx), size, count, red, er)
	}
	if c.Thorough() {
		for size := 1; size <= 64; size++ {
			for count := 1; count <= 300; count++ {
				red := []int{0, 1, 7, 33, 100}[(size+count)%5]
				run(size, count, red, true)
			}
		}
		c.Exhaustive("encode grid size 1..64 x count 1..300")
		for i := 0; i < 600000; i++ {
			r := c.RNG("pick", int64(i))
			run(1+r.Intn(64), 1+r.Intn(300), 1+r.Intn(100), true)
		}
	} else {
		for i := 0; i < 3000; i++ {
			r := c.RNG("pick", int64(i))
			count := 1 + r.Intn(300)
			if r.Chance(1, 4) {
				count = []int{1, 2, 3, 4, 7, 8, 9, 15, 16, 17, 31, 32, 33, 63, 64, 65, 127, 128, 129, 255, 256, 257, 300}[r.Intn(23)]
			}
			run(1+r.Intn(64), count, r.Intn(101), i%2 == 0)
		}
		for count := 1; count <= 130; count++ {
			run(4, count, 10, true)
			run(10, count, 5, false)
		}
		for size := 1; size <= 64; size++ {
			run(size, 8, 6, true)
			run(size, 10, 6, true)
		}
	}

	// sizes of real firmware-update sessions (fragments of 48..242 bytes, hundreds to thousands of them)
	for _, size := range []int{48, 100, 200, 232, 242} {
		for _, count := range []int{400, 512, 1000, 1024, 2047} {
			for _, red := range []int{0, 1, 20, 300} {
				run(size, count, red, false)
			}
		}
	}

	// the same calls while other goroutines encode other images: every call still returns what it returns
	// when it runs alone (which the cases above compare with the TS004 model)
	if c.Whole("concurrent") {
		c19Concurrent(c)
	}

	// invalid arguments
	if c.Whole("invalid") {
		type tc struct {
			n, size, red int
		}
		for _, t := range []tc{{10, 0, 2}, {10, -1, 2}, {10, -5, 0}, {0, 0, 0}, {10, 3, 2}, {10, 4, 1}, {7, 8, 1}, {1, 2, 0}, {0, -2, 1}, {10, 20, 1}} {
			var rows [][]byte
			var err error
			c.Eval(1)
			if p, msg := core.Guard(func() { rows, err = fragmentation.Encode(make([]byte, t.n), t.size, t.red) }); p {
				kind := "nondividing"
				if t.size == 0 {
					kind = "zero"
				} else if t.size < 0 {
					kind = "negative"
				}
				c.Violate("C19|panic|fragment-size-"+kind, "Encode(len=%d, size=%d, red=%d) panics: %s", t.n, t.size, t.red, msg)
			} else if err == nil {
				c.Violate("C19|invalid-accepted", "Encode(len=%d, size=%d, red=%d) accepted: %d rows", t.n, t.size, t.red, len(rows))
			}
			c.Shape("invalid", t.n, t.size)
		}
		for _, red := range []int{-1, -100} {
			var rows [][]byte
			var err error
			c.Eval(1)
			if p, msg := core.Guard(func() { rows, err = fragmentation.Encode(make([]byte, 8), 4, red) }); p {
				c.Violate("C19|panic|negative-redundancy", "%s", msg)
			} else if err == nil && len(rows) != 2 {
				c.Violate("C19|negative-redundancy", "red=%d gives %d rows", red, len(rows))
			}
		}
		// empty data with a valid size: zero fragments, no panic
		c.Eval(1)
		if p, msg := core.Guard(func() { fragmentation.Encode(nil, 4, 0) }); p {
			c.Violate("C19|panic|empty-data", "%s", msg)
		}
	}
}

func c19Concurrent(c *core.Ctx) {
	type job struct {
		data      []byte
		size, red int
		want      [][]byte
	}
	r := c.RNG("concurrent", 0)
	var jobs []job
	for _, t := range [][3]int{{4, 8, 10}, {10, 16, 12}, {7, 33, 20}, {16, 100, 30}, {3, 5, 9}, {48, 64, 16}, {1, 2, 40}, {12, 127, 25}} {
		j := job{data: r.Bytes(t[0] * t[1]), size: t[0], red: t[2]}
		var err error
		if p, _ := core.Guard(func() { j.want, err = fragmentation.Encode(append([]byte{}, j.data...), j.size, j.red) }); p || err != nil {
			return // judged by the sequential cases
		}
		jobs = append(jobs, j)
	}
	const rounds = 60
	bad := make([]string, len(jobs))
	var wg sync.WaitGroup
	for gi := range jobs {
		wg.Add(1)
		go func(gi int) {
			defer wg.Done()
			j := jobs[gi]
			for k := 0; k < rounds && bad[gi] == ""; k++ {
				var got [][]byte
				var err error
				if p, msg := core.Guard(func() { got, err = fragmentation.Encode(append([]byte{}, j.data...), j.size, j.red) }); p || err != nil {
					bad[gi] = fmt.Sprintf("round %d: err=%v %s", k, err, msg)
					return
				}
				if len(got) != len(j.want) {
					bad[gi] = fmt.Sprintf("round %d: %d fragments, alone %d", k, len(got), len(j.want))
					return
				}
				for i := range got {
					if !bytes.Equal(got[i], j.want[i]) {
						bad[gi] = fmt.Sprintf("round %d: fragment %d is %x, alone %x", k, i+1, got[i], j.want[i])
						return
					}
				}
			}
		}(gi)
	}
	wg.Wait()
	c.Eval(int64(len(jobs) * rounds))
	for gi, b := range bad {
		if b != "" {
			c.Violate("C19|concurrent", "Encode(size=%d, fragments=%d, redundancy=%d) called while %d other goroutines encode other data differs from the same call made alone: %s", jobs[gi].size, len(jobs[gi].data)/jobs[gi].size, jobs[gi].red, len(jobs)-1, b)
			break
		}
	}
	c.Shape("concurrent", len(jobs), rounds)
}
