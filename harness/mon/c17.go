package mon

import (
	"bytes"
	"encoding/hex"
	"encoding/json"
	"fmt"
	"math"
	"reflect"
	"strconv"
	"strings"
	"time"

	"github.com/brocaar/lorawan"
	"github.com/brocaar/lorawan/backend"

	"lwverif/core"
	"lwverif/spec"
)

func init() {
	core.Register(&core.Property{
		ID:          "C17",
		Rule:        "Percentage 0..1000 exhaustively; Frequency: quick = every multiple of 100 Hz in [100 MHz, 1 GHz] with stride 37 + every Hz in ten 100-kHz windows + boundary values up to 2^32, thorough = every multiple of 100 Hz in [0, 2.5 GHz] + every Hz in 100 MHz of windows; HEXBytes of length 0..64 (one in eight: up to 1264) (with and without 0x on input); ISO8601Time at seeded instants in years 0002..9998 with minute-granular zone offsets; the 20 request/answer payload structs and the 3 profile structs filled by a reflection-driven generator (optional pointers nil/non-nil, slices nil/empty/non-empty, RawMessage from a small JSON grammar): Marshal->Unmarshal must be semantically equal and re-Marshal byte-identical. Key envelopes: NewKeyEnvelope output vs. the harness' RFC 3394 wrap; Unwrap must succeed exactly when the model's integrity check passes over correct / wrong-KEK / bit-flipped / truncated envelopes, KEK sizes 16/24/32 (and invalid sizes). Distinct = value classes per type, struct type x optional-field pattern, envelope tamper class x KEK size.",
		Assumptions: []string{"encoding/json, encoding/hex, time of the Go standard library are trusted", "RFC 3394 key wrap as implemented in harness/spec/crypto.go (the library uses NickBall/go-aes-key-wrap)"},
		MinEvals:    1000,
		Run:         runC17,
	})
}

func c17Freq(c *core.Ctx, hz int64) bool {
	if hz > math.MaxInt {
		return true // backend.Frequency is an int: where int is 32 bits wide this is not a value of the type
	}
	f := backend.Frequency(hz)
	// through encoding/json, as applications do, by value and by pointer (no direct method call: the
	// method set of the type is not the harness' business)
	b, err := json.Marshal(f)
	if bp, e2 := json.Marshal(&f); e2 != nil || !bytes.Equal(bp, b) {
		c.Violate("C17|frequency|by-value-differs", "Frequency %d Hz: json.Marshal(f) = %s, json.Marshal(&f) = %s (%v)", hz, b, bp, e2)
		return false
	}
	if err != nil {
		c.Violate("C17|frequency|marshal-error", "%d: %v", hz, err)
		return false
	}
	// the JSON value is the frequency in MHz (Backend Interfaces): parse it independently
	if mhz, perr := strconv.ParseFloat(string(b), 64); perr != nil || math.Abs(mhz*1e6-float64(hz)) > 0.25 {
		c.Violate("C17|frequency|not-mhz", "Frequency %d Hz is written as %s, expected %v MHz", hz, b, float64(hz)/1e6)
		return false
	}
	var g backend.Frequency
	if err := g.UnmarshalJSON(b); err != nil {
		c.Violate("C17|frequency|unmarshal-error", "%d (%s): %v", hz, b, err)
		return false
	}
	if int64(g) != hz {
		c.Violate("C17|frequency|lossy", "Frequency %d Hz -> %s -> %d Hz", hz, b, int64(g))
		return false
	}
	return true
}

var (
	tISO    = reflect.TypeOf(backend.ISO8601Time{})
	tHEX    = reflect.TypeOf(backend.HEXBytes{})
	tRaw    = reflect.TypeOf(json.RawMessage{})
	tFreq   = reflect.TypeOf(backend.Frequency(0))
	tPerc   = reflect.TypeOf(backend.Percentage(0))
	tDLS    = reflect.TypeOf(lorawan.DLSettings{})
	tKeyEnv = reflect.TypeOf(backend.KeyEnvelope{})
)

func randString(r *core.RNG) string {
	switch r.Intn(6) {
	case 0:
		return ""
	case 1:
		return []string{"1.0", "000013", "70b3d57ed0000001", "Success", "Passive", "Drop", "<tag>&\"q\"", "ünï©ode ✓", "line\nbreak\ttab", "\\back/slash"}[r.Intn(10)]
	}
	n := 1 + r.Intn(12)
	var sb strings.Builder
	for i := 0; i < n; i++ {
		sb.WriteByte(byte(0x20 + r.Intn(0x5f)))
	}
	return sb.String()
}

func randFloat(r *core.RNG) float64 {
	switch r.Intn(6) {
	case 0:
		return 0
	case 1:
		return float64(r.Intn(2000)-1000) / 10
	case 2:
		return 868.1 + float64(r.Intn(100))*0.2
	case 3:
		return math.Float64frombits(r.U64()&^(0x7ff<<52) | uint64(900+r.Intn(250))<<52) // finite, wide exponent range
	case 4:
		return -float64(r.U32()) / 7
	}
	return float64(r.U32()) * 1e-3
}

func randISO(r *core.RNG) backend.ISO8601Time {
	// 0002-01-01 .. 9998-12-31, whole seconds, minute-granular zone
	lo := time.Date(2, 1, 1, 0, 0, 0, 0, time.UTC).Unix()
	hi := time.Date(9998, 12, 31, 0, 0, 0, 0, time.UTC).Unix()
	sec := lo + int64(r.U64()%uint64(hi-lo))
	if r.Chance(1, 4) {
		sec = time.Date(1980+r.Intn(120), time.Month(1+r.Intn(12)), 1+r.Intn(28), r.Intn(24), r.Intn(60), r.Intn(60), 0, time.UTC).Unix()
	}
	t := time.Unix(sec, 0).UTC()
	switch r.Intn(3) {
	case 1:
		off := (r.Intn(2*14*60+1) - 14*60) * 60
		t = t.In(time.FixedZone("", off))
	case 2:
		t = t.In(time.FixedZone("X", []int{3600, -18000, 19800, 45 * 60 * 13, 0}[r.Intn(5)]))
	}
	if r.Chance(1, 5) {
		t = t.Add(time.Duration(r.Intn(1000000000))) // sub-second part is dropped by the format: equal "to one second"
	}
	return backend.ISO8601Time(t)
}

func randRaw(r *core.RNG, depth int) string {
	switch r.Intn(6) {
	case 0:
		return fmt.Sprint(r.Intn(100000) - 50000)
	case 1:
		b, _ := json.Marshal(randString(r))
		return string(b)
	case 2:
		// spellings a vendor's encoder may use and that must come back exactly as they were sent
		return []string{"true", "false", "1.5e3", "0", "18446744073709551615", "9007199254740993", "868.10", "1E3", "-0", "0.10000000000000000001", "1e-7", "123456789012345678901234567890", "null"}[r.Intn(13)]
	case 3:
		if depth > 2 {
			return "[]"
		}
		n := r.Intn(3)
		parts := make([]string, n)
		for i := range parts {
			parts[i] = randRaw(r, depth+1)
		}
		return "[" + strings.Join(parts, ",") + "]"
	default:
		if depth > 2 {
			return "{}"
		}
		n := r.Intn(4)
		parts := make([]string, n)
		for i := range parts {
			// members in no particular order, now and then the same name twice
			k, _ := json.Marshal([]string{"z", "k1", "a", "gatewayID", "k1"}[r.Intn(5)])
			parts[i] = string(k) + ":" + randRaw(r, depth+1)
		}
		return "{" + strings.Join(parts, ",") + "}"
	}
}

// fillRandom fills every exported field of a struct with generated values.
func fillRandom(r *core.RNG, v reflect.Value, pat *strings.Builder) {
	t := v.Type()
	switch t {
	case tISO:
		v.Set(reflect.ValueOf(randISO(r)))
		return
	case tHEX:
		switch r.Intn(4) {
		case 0:
			pat.WriteByte('n')
		case 1:
			v.Set(reflect.ValueOf(backend.HEXBytes{}))
			pat.WriteByte('e')
		default:
			ln := 1 + r.Intn(40)
			if r.Chance(1, 12) {
				ln = 200 + r.Intn(300) // a maximum-size PHYPayload, a long FRMPayload
			}
			v.Set(reflect.ValueOf(backend.HEXBytes(r.Bytes(ln))))
			pat.WriteByte('b')
		}
		return
	case tRaw:
		if r.Bool() {
			v.Set(reflect.ValueOf(json.RawMessage(randRaw(r, 0))))
			pat.WriteByte('r')
		}
		return
	case tFreq:
		switch r.Intn(4) {
		case 0:
			v.SetInt(int64(r.Intn(1<<24)) * 100)
		case 1:
			v.SetInt(int64(r.U32()))
		default:
			v.SetInt(int64(400000000 + r.Intn(600000000)))
		}
		return
	case tPerc:
		v.SetInt(int64(r.Intn(101)))
		if r.Chance(1, 8) {
			v.SetInt(int64(r.Intn(1001)))
		}
		return
	case tDLS:
		v.Set(reflect.ValueOf(lorawan.DLSettings{OptNeg: r.Bool(), RX2DataRate: uint8(r.Intn(16)), RX1DROffset: uint8(r.Intn(8))}))
		return
	}
	switch v.Kind() {
	case reflect.Struct:
		for i := 0; i < v.NumField(); i++ {
			if t.Field(i).PkgPath != "" {
				continue
			}
			fillRandom(r, v.Field(i), pat)
		}
	case reflect.Ptr:
		if r.Chance(2, 5) {
			pat.WriteByte('0')
			return
		}
		pat.WriteByte('1')
		nv := reflect.New(t.Elem())
		fillRandom(r, nv.Elem(), pat)
		v.Set(nv)
	case reflect.Slice:
		switch r.Intn(3) {
		case 0:
			pat.WriteByte('N')
		case 1:
			v.Set(reflect.MakeSlice(t, 0, 0))
			pat.WriteByte('E')
		default:
			n := 1 + r.Intn(3)
			if r.Chance(1, 10) {
				n = 4 + r.Intn(40) // long lists (FactoryPresetFreqs, gateway lists)
			}
			s := reflect.MakeSlice(t, n, n)
			for i := 0; i < n; i++ {
				fillRandom(r, s.Index(i), pat)
			}
			v.Set(s)
			pat.WriteByte('S')
		}
	case reflect.Array:
		for i := 0; i < v.Len(); i++ {
			fillRandom(r, v.Index(i), pat)
		}
	case reflect.String:
		v.SetString(randString(r))
	case reflect.Bool:
		v.SetBool(r.Bool())
	case reflect.Int, reflect.Int64, reflect.Int32:
		v.SetInt(int64(int32(r.U32Edge())))
	case reflect.Int8:
		v.SetInt(int64(int8(r.Byte())))
	case reflect.Uint8:
		v.SetUint(uint64(r.Byte()))
	case reflect.Uint16:
		v.SetUint(uint64(uint16(r.U32())))
	case reflect.Uint32, reflect.Uint, reflect.Uint64:
		v.SetUint(uint64(r.U32Edge()))
	case reflect.Float64, reflect.Float32:
		v.SetFloat(randFloat(r))
	}
}

// canon renders a value for semantic comparison: times to the second in UTC,
// nil == empty slices, RawMessage compacted.
func canon(sb *strings.Builder, v reflect.Value) {
	t := v.Type()
	switch t {
	case tISO:
		fmt.Fprintf(sb, "T%d", time.Time(v.Interface().(backend.ISO8601Time)).Unix())
		return
	case tRaw:
		var buf bytes.Buffer
		raw := v.Interface().(json.RawMessage)
		if len(raw) > 0 {
			json.Compact(&buf, raw)
		}
		sb.WriteString("R" + buf.String())
		return
	}
	switch v.Kind() {
	case reflect.Struct:
		sb.WriteString(t.Name() + "{")
		for i := 0; i < v.NumField(); i++ {
			if t.Field(i).PkgPath != "" {
				continue
			}
			sb.WriteString(t.Field(i).Name + ":")
			canon(sb, v.Field(i))
			sb.WriteByte(' ')
		}
		sb.WriteByte('}')
	case reflect.Ptr:
		if v.IsNil() {
			sb.WriteString("nil")
			return
		}
		sb.WriteByte('&')
		canon(sb, v.Elem())
	case reflect.Slice, reflect.Array:
		if t.Elem().Kind() == reflect.Uint8 {
			sb.WriteByte('x')
			for i := 0; i < v.Len(); i++ {
				fmt.Fprintf(sb, "%02x", v.Index(i).Uint())
			}
			return
		}
		sb.WriteByte('[')
		for i := 0; i < v.Len(); i++ {
			canon(sb, v.Index(i))
			sb.WriteByte(' ')
		}
		sb.WriteByte(']')
	default:
		sb.WriteString(core.Dump(v.Interface()))
	}
}

var c17Structs = []func() interface{}{
	func() interface{} { return &backend.JoinReqPayload{} }, func() interface{} { return &backend.JoinAnsPayload{} },
	func() interface{} { return &backend.RejoinReqPayload{} }, func() interface{} { return &backend.RejoinAnsPayload{} },
	func() interface{} { return &backend.AppSKeyReqPayload{} }, func() interface{} { return &backend.AppSKeyAnsPayload{} },
	func() interface{} { return &backend.PRStartReqPayload{} }, func() interface{} { return &backend.PRStartAnsPayload{} },
	func() interface{} { return &backend.PRStopReqPayload{} }, func() interface{} { return &backend.PRStopAnsPayload{} },
	func() interface{} { return &backend.HRStartReqPayload{} }, func() interface{} { return &backend.HRStartAnsPayload{} },
	func() interface{} { return &backend.HRStopReqPayload{} }, func() interface{} { return &backend.HRStopAnsPayload{} },
	func() interface{} { return &backend.HomeNSReqPayload{} }, func() interface{} { return &backend.HomeNSAnsPayload{} },
	func() interface{} { return &backend.ProfileReqPayload{} }, func() interface{} { return &backend.ProfileAnsPayload{} },
	func() interface{} { return &backend.XmitDataReqPayload{} }, func() interface{} { return &backend.XmitDataAnsPayload{} },
	func() interface{} { return &backend.ServiceProfile{} }, func() interface{} { return &backend.DeviceProfile{} },
	func() interface{} { return &backend.RoutingProfile{} }, func() interface{} { return &backend.KeyEnvelope{} },
	func() interface{} { return &backend.ULMetaData{} }, func() interface{} { return &backend.DLMetaData{} },
}

func c17Struct(c *core.Ctx, r *core.RNG, k int) {
	v := c17Structs[k]()
	name := reflect.TypeOf(v).Elem().Name()
	var pat strings.Builder
	fillRandom(r, reflect.ValueOf(v).Elem(), &pat)
	var j1 []byte
	var err error
	c.Eval(1)
	if p, msg := core.Guard(func() { j1, err = json.Marshal(v) }); p || err != nil {
		c.Violate("C17|struct|"+name+"|marshal", "%v %s", err, msg)
		return
	}
	v2 := c17Structs[k]()
	c.Eval(1)
	if p, msg := core.Guard(func() { err = json.Unmarshal(j1, v2) }); p || err != nil {
		c.Violate("C17|struct|"+name+"|unmarshal", "%v %s json=%s", err, msg, short(string(j1), 600))
		return
	}
	var a, b strings.Builder
	canon(&a, reflect.ValueOf(v).Elem())
	canon(&b, reflect.ValueOf(v2).Elem())
	if a.String() != b.String() {
		// find first difference for the key
		x, y := a.String(), b.String()
		i := 0
		for i < len(x) && i < len(y) && x[i] == y[i] {
			i++
		}
		lo := i - 60
		if lo < 0 {
			lo = 0
		}
		c.Violate("C17|struct|"+name+"|differs", "decode(encode(x)) != x near …%s… vs …%s… | json=%s", short(x[lo:], 160), short(y[lo:], 160), short(string(j1), 500))
		return
	}
	j2, err := json.Marshal(v2)
	c.Eval(1)
	if err != nil || !bytes.Equal(j1, j2) {
		c.Violate("C17|struct|"+name+"|reencode-differs", "second encoding differs (%v)\n %s\n %s", err, short(string(j1), 400), short(string(j2), 400))
	}
	// the same value passed to the encoder by value (not addressable) and inside a wrapper gives the same JSON
	if jv, err := json.Marshal(reflect.ValueOf(v).Elem().Interface()); err != nil || !bytes.Equal(jv, j1) {
		c.Violate("C17|struct|"+name+"|by-value-differs", "json.Marshal(x) and json.Marshal(&x) differ (%v)\n by value   %s\n by pointer %s", err, short(string(jv), 400), short(string(j1), 400))
	}
	if jw, err := json.Marshal(map[string]interface{}{"k": reflect.ValueOf(v).Elem().Interface()}); err != nil || !bytes.Equal(jw, append(append([]byte(`{"k":`), j1...), '}')) {
		c.Violate("C17|struct|"+name+"|by-value-differs", "the value inside a map encodes differently (%v): %s", err, short(string(jw), 400))
	}
	p := pat.String()
	if len(p) > 12 {
		p = p[:12]
	}
	c.Shape("struct", name, p)
	if c.WantSample("struct") && k == 0 {
		c.Sample("struct", map[string]interface{}{"type": name, "json": string(j1)})
	}
}

func c17Envelope(c *core.Ctx, r *core.RNG) {
	kekLen := []int{16, 24, 32}[r.Intn(3)]
	if r.Chance(1, 12) {
		kekLen = []int{0, 1, 15, 17, 31, 33, 64}[r.Intn(7)]
	}
	kek := r.Bytes(kekLen)
	if r.Chance(1, 5) {
		// key-encryption keys with structure: the bytes of a hex or base64 text, printable text, one repeated byte
		alpha := []string{"0123456789abcdef", "0123456789ABCDEF", "ABCDEFGHIJKLMNOPQRSTUVWXYZabcdefghijklmnopqrstuvwxyz0123456789+/", " !kek-Passphrase_", "\x00", "\xff"}[r.Intn(6)]
		for i := range kek {
			kek[i] = alpha[r.Intn(len(alpha))]
		}
	}
	key := key16(r)
	label := []string{"lbl", "lbl", "010203", "0x010203", "C0002A", "000000", "000001", "0x000001", "00", "0", "null", "false", "as-kek/1", "a label with spaces", "ключ", "k", strings.Repeat("L", 200)}[r.Intn(17)]
	if r.Chance(1, 5) {
		label = ""
	}
	validKEK := kekLen == 16 || kekLen == 24 || kekLen == 32
	var env *backend.KeyEnvelope
	var err error
	c.Eval(1)
	if p, msg := core.Guard(func() { env, err = backend.NewKeyEnvelope(label, kek, lorawan.AES128Key(key)) }); p {
		c.Violate("C17|envelope|new-panic", "%s", msg)
		return
	}
	clear := label == "" || kekLen == 0
	switch {
	case clear:
		if err != nil || env == nil || env.KEKLabel != "" || !bytes.Equal(env.AESKey, key[:]) {
			c.Violate("C17|envelope|clear", "no label/KEK: expected the key in clear, got %+v err %v", env, err)
		}
		c.Shape("envelope", "clear", kekLen)
		return
	case !validKEK:
		if err == nil {
			c.Violate("C17|envelope|bad-kek-accepted", "KEK of %d bytes accepted", kekLen)
		}
		c.Shape("envelope", "bad-kek", kekLen)
		return
	}
	want, _ := spec.KeyWrap(kek, key[:])
	if err != nil || env == nil || env.KEKLabel != label || !bytes.Equal(env.AESKey, want) {
		c.Violate(fmt.Sprintf("C17|envelope|wrap-differs|kek=%d", kekLen), "NewKeyEnvelope = %+v err %v, RFC 3394 wrap = %x", env, err, want)
		return
	}
	// through JSON
	j, _ := json.Marshal(env)
	var env2 backend.KeyEnvelope
	if err := json.Unmarshal(j, &env2); err != nil || !bytes.Equal(env2.AESKey, env.AESKey) || env2.KEKLabel != label {
		c.Violate("C17|envelope|json", "envelope JSON round trip: %v %s", err, j)
	}
	type tam struct {
		name string
		kek  []byte
		ct   []byte
	}
	flip := func(b []byte) []byte {
		o := append([]byte{}, b...)
		flipBit(o, r)
		return o
	}
	other := r.Bytes([]int{16, 24, 32}[r.Intn(3)])
	wrap24, _ := spec.KeyWrap(kek, r.Bytes(24))
	tams := []tam{
		{"correct", kek, env.AESKey},
		{"wrong-kek-bit", flip(kek), env.AESKey},
		{"wrong-kek-other", other, env.AESKey},
		{"ct-bitflip", kek, flip(env.AESKey)},
		{"truncated-8", kek, env.AESKey[:16]},
		{"truncated-1", kek, env.AESKey[:23]},
		{"extended", kek, append(append([]byte{}, env.AESKey...), r.Bytes(8)...)},
		{"empty", kek, nil},
		{"clear-key", kek, key[:]},
		{"wrapped-24-byte-plaintext", kek, wrap24},
		{"bad-kek-size", r.Bytes(15), env.AESKey},
	}
	// each case also with the label lost on the way (the label names the KEK, it is no input of RFC 3394)
	for _, t0 := range append([]tam{}, tams...) {
		tams = append(tams, tam{t0.name + "|no-label", t0.kek, t0.ct})
	}
	for _, t := range tams {
		e := backend.KeyEnvelope{KEKLabel: label, AESKey: backend.HEXBytes(t.ct)}
		if strings.HasSuffix(t.name, "|no-label") {
			e.KEKLabel = ""
		}
		var got lorawan.AES128Key
		var err error
		c.Eval(1)
		if p, msg := core.Guard(func() { got, err = e.Unwrap(t.kek) }); p {
			c.Violate("C17|envelope|unwrap-panic|"+t.name, "%s", msg)
			continue
		}
		pt, ok := spec.KeyUnwrap(t.kek, t.ct)
		if ok != (err == nil) {
			c.Violate(fmt.Sprintf("C17|envelope|unwrap-verdict|%s|lib-ok=%v", t.name, err == nil), "Unwrap err=%v but RFC 3394 integrity check passes=%v (kek %d bytes, ct %d bytes)", err, ok, len(t.kek), len(t.ct))
			continue
		}
		if ok && len(pt) == 16 && !bytes.Equal(got[:], pt) {
			c.Violate("C17|envelope|unwrap-key|"+t.name, "Unwrap = %x, model = %x", got, pt)
		}
		c.Shape("envelope", t.name, kekLen, ok)
	}
	// one envelope value tried with several KEKs (a server that holds more than one): a failed
	// attempt neither changes the envelope nor the outcome of the next attempt
	e := backend.KeyEnvelope{KEKLabel: label, AESKey: append(backend.HEXBytes{}, env.AESKey...)}
	c.Eval(3)
	core.Guard(func() { e.Unwrap(other); e.Unwrap(flip(kek)); e.Unwrap(r.Bytes(7)) })
	if !bytes.Equal(e.AESKey, env.AESKey) || e.KEKLabel != label {
		c.Violate("C17|envelope|changed-by-failed-unwrap", "envelope after failed Unwrap attempts: %x, before: %x", []byte(e.AESKey), []byte(env.AESKey))
	}
	if got, err := e.Unwrap(kek); err != nil || got != lorawan.AES128Key(key) {
		c.Violate("C17|envelope|unwrap-after-failed-attempt", "Unwrap with the right KEK after failed attempts with other KEKs: %x err=%v, want %x", got, err, key)
	}
	if !bytes.Equal(e.AESKey, env.AESKey) {
		c.Violate("C17|envelope|changed-by-unwrap", "envelope after a successful Unwrap: %x, before: %x", []byte(e.AESKey), []byte(env.AESKey))
	}
}

func runC17(c *core.Ctx) {
	// ---- Percentage
	if c.Whole("percentage") {
		for p := 0; p <= 1000; p++ {
			b, err := json.Marshal(backend.Percentage(p))
			if pv := backend.Percentage(p); err == nil {
				if bp, _ := json.Marshal(&pv); !bytes.Equal(bp, b) {
					c.Violate("C17|percentage|by-value-differs", "%d: %s vs %s", p, b, bp)
				}
			}
			var q backend.Percentage
			c.Eval(2)
			if err != nil {
				c.Violate("C17|percentage|marshal-error", "%d: %v", p, err)
				continue
			}
			if f, perr := strconv.ParseFloat(string(b), 64); perr != nil || math.Abs(f*100-float64(p)) > 1e-6 {
				c.Violate("C17|percentage|not-a-fraction", "Percentage %d is written as %s, expected %v", p, b, float64(p)/100)
			}
			if err := q.UnmarshalJSON(b); err != nil || int(q) != p {
				c.Violate("C17|percentage|lossy", "Percentage %d -> %s -> %d (err %v)", p, b, int(q), err)
			}
			c.Shape("percentage", p)
		}
		c.Exhaustive("percentage 0..1000")
		// through a struct field too
		for _, p := range []int{0, 1, 10, 29, 57, 58, 100} {
			sp := backend.ServiceProfile{TargetPER: backend.Percentage(p)}
			j, _ := json.Marshal(sp)
			var sp2 backend.ServiceProfile
			c.Eval(1)
			if err := json.Unmarshal(j, &sp2); err != nil || int(sp2.TargetPER) != p {
				c.Violate("C17|percentage|lossy", "ServiceProfile.TargetPER %d -> %d (%v)", p, sp2.TargetPER, err)
			}
		}
	}

	// ---- Frequency
	{
		const blk = 100000 // values per case
		var idx int64
		bad := 0
		sweep := func(mon string, from, to, step int64) {
			for lo := from; lo < to; lo += step * blk {
				idx++
				if !c.Mine(mon, idx) {
					continue
				}
				hi := lo + step*blk
				if hi > to {
					hi = to
				}
				n := int64(0)
				for hz := lo; hz < hi; hz += step {
					if !c17Freq(c, hz) {
						bad++
					}
					n++
				}
				c.Eval(2 * n)
				c.ShapeHash(uint64(lo) ^ uint64(step)<<48)
			}
		}
		if c.Thorough() {
			sweep("freq-100hz", 0, 2500000000, 100)
			for w := int64(0); w < 100; w++ {
				base := 100000000 + w*23700000
				sweep("freq-1hz", base, base+1000000, 1)
			}
			c.Exhaustive("frequency: every multiple of 100 Hz in [0, 2.5 GHz]")
		} else {
			sweep("freq-100hz", 100000000, 1000000000, 3700)
			for w := int64(0); w < 10; w++ {
				base := 128100000 + w*97300000
				sweep("freq-1hz", base, base+100000, 1)
			}
		}
		if c.Whole("freq-boundary") {
			for _, hz := range []int64{0, 1, 99, 100, 101, 128200000, 868100000, 868300000, 915000000, 923200000, 2400000000, 2403000000, 2479000000, 4294967295, 4294967200, 1677721500, 999999999, 1000000001, 433175000, 865062500, 865402500, 865985000} {
				c17Freq(c, hz)
				c.Eval(2)
			}
			if c.WantSample("freq") {
				b, _ := json.Marshal(backend.Frequency(868100000))
				c.Sample("freq", map[string]interface{}{"hz": 868100000, "json": string(b)})
			}
		}
	}

	// ---- HEXBytes / ISO8601Time / structs / envelopes
	n := c.N(40000, 12000000)
	for i := int64(0); i < n; i++ {
		if !c.Mine("values", i) {
			continue
		}
		r := c.RNG("values", i)
		switch i % 4 {
		case 0:
			ln := r.Intn(65)
			if r.Chance(1, 8) {
				ln = 65 + r.Intn(1200)
			}
			b := r.Bytes(ln)
			hb := backend.HEXBytes(b)
			txt, err := hb.MarshalText()
			c.Eval(4)
			// the text is the bytes in hex (the property fixes neither the letter case nor an optional prefix)
			if err != nil || strings.ToLower(strings.TrimPrefix(strings.TrimPrefix(string(txt), "0x"), "0X")) != hex.EncodeToString(b) {
				c.Violate("C17|hexbytes|marshal", "%x -> %q %v", b, txt, err)
			}
			// what the library writes it must read back; the other spellings of the same bytes need not be
			// accepted, but when they are they must mean those bytes
			for k, in := range []string{string(txt), hex.EncodeToString(b), "0x" + hex.EncodeToString(b), strings.ToUpper(hex.EncodeToString(b))} {
				var g backend.HEXBytes
				if err := g.UnmarshalText([]byte(in)); (err != nil && k == 0) || (err == nil && !bytes.Equal(g, b)) {
					c.Violate("C17|hexbytes|unmarshal", "%q -> %x %v", in, []byte(g), err)
				}
			}
			// a byte string decoded earlier and kept by value is not overwritten by the next decode into the same variable
			{
				var g backend.HEXBytes
				first := r.Bytes(ln + r.Intn(8))
				if g.UnmarshalText([]byte(hex.EncodeToString(first))) == nil {
					kept := g
					g.UnmarshalText([]byte(hex.EncodeToString(b)))
					if !bytes.Equal(kept, first) {
						c.Violate("C17|hexbytes|kept-copy-changed", "HEXBytes decoded from %x and kept by value reads %x after the same variable decoded %x", first, []byte(kept), b)
					}
					if ln > 0 {
						g[0] ^= 0xff // and a decoded value is the caller's to modify: a later decode of the same text is unaffected
						var g2 backend.HEXBytes
						if g2.UnmarshalText([]byte(hex.EncodeToString(b))) != nil || !bytes.Equal(g2, b) {
							c.Violate("C17|hexbytes|decode-shared", "decoding %x again after the first result was modified gives %x", b, []byte(g2))
						}
					}
				}
			}
			j, _ := json.Marshal(struct{ A backend.HEXBytes }{hb})
			var back struct{ A backend.HEXBytes }
			if err := json.Unmarshal(j, &back); err != nil || !bytes.Equal(back.A, b) {
				c.Violate("C17|hexbytes|json", "%s -> %x %v", j, []byte(back.A), err)
			}
			for _, badIn := range []string{"0", "xyz", "0x0", "abc"} {
				var g backend.HEXBytes
				if p, msg := core.Guard(func() { _ = g.UnmarshalText([]byte(badIn)) }); p { // text no encoder writes: only totality
					c.Violate("C17|hexbytes|malformed-panic", "%q: %s", badIn, msg)
				}
			}
			c.Shape("hexbytes", ln)
		case 1:
			ts := randISO(r)
			j, err := json.Marshal(ts)
			c.Eval(2)
			if err != nil {
				c.Violate("C17|iso8601|marshal", "%v: %v", time.Time(ts), err)
				break
			}
			// the text must be an RFC 3339 / ISO 8601 timestamp denoting the same second
			var txt string
			if json.Unmarshal(j, &txt) != nil {
				c.Violate("C17|iso8601|not-a-string", "%s", j)
			} else if pt, perr := time.Parse(time.RFC3339, txt); perr != nil || pt.Unix() != time.Time(ts).Unix() {
				c.Violate("C17|iso8601|format", "%s is written as %s which an independent RFC 3339 parser reads as %v (%v)", time.Time(ts).Format(time.RFC3339Nano), j, pt, perr)
			}
			var back backend.ISO8601Time
			if err := json.Unmarshal(j, &back); err != nil || time.Time(back).Unix() != time.Time(ts).Unix() {
				c.Violate("C17|iso8601|lossy", "%s -> %s -> %s (%v)", time.Time(ts).Format(time.RFC3339Nano), j, time.Time(back).Format(time.RFC3339Nano), err)
			}
			_, off := time.Time(ts).Zone()
			c.Shape("iso", off/3600, time.Time(ts).Year()/500)
		case 2:
			c17Struct(c, r, int(i/4)%len(c17Structs))
		case 3:
			c17Envelope(c, r)
		}
	}
}
