// Package mon contains the monitors, one file per property.
package mon

import (
	"bytes"
	"fmt"
	"reflect"
	"sort"
	"sync"

	"github.com/brocaar/lorawan"

	"lwverif/core"
	"lwverif/spec"
)

// macCtor is the harness' own (direction, CID) -> payload type table; it is
// deliberately not read from the library's registry.
var macCtor = map[bool]map[byte]func() lorawan.MACCommandPayload{
	false: {
		0x01: func() lorawan.MACCommandPayload { return &lorawan.ResetConfPayload{} },
		0x02: func() lorawan.MACCommandPayload { return &lorawan.LinkCheckAnsPayload{} },
		0x03: func() lorawan.MACCommandPayload { return &lorawan.LinkADRReqPayload{} },
		0x04: func() lorawan.MACCommandPayload { return &lorawan.DutyCycleReqPayload{} },
		0x05: func() lorawan.MACCommandPayload { return &lorawan.RXParamSetupReqPayload{} },
		0x07: func() lorawan.MACCommandPayload { return &lorawan.NewChannelReqPayload{} },
		0x08: func() lorawan.MACCommandPayload { return &lorawan.RXTimingSetupReqPayload{} },
		0x09: func() lorawan.MACCommandPayload { return &lorawan.TXParamSetupReqPayload{} },
		0x0A: func() lorawan.MACCommandPayload { return &lorawan.DLChannelReqPayload{} },
		0x0B: func() lorawan.MACCommandPayload { return &lorawan.RekeyConfPayload{} },
		0x0C: func() lorawan.MACCommandPayload { return &lorawan.ADRParamSetupReqPayload{} },
		0x0D: func() lorawan.MACCommandPayload { return &lorawan.DeviceTimeAnsPayload{} },
		0x0E: func() lorawan.MACCommandPayload { return &lorawan.ForceRejoinReqPayload{} },
		0x0F: func() lorawan.MACCommandPayload { return &lorawan.RejoinParamSetupReqPayload{} },
		0x11: func() lorawan.MACCommandPayload { return &lorawan.PingSlotChannelReqPayload{} },
		0x13: func() lorawan.MACCommandPayload { return &lorawan.BeaconFreqReqPayload{} },
		0x20: func() lorawan.MACCommandPayload { return &lorawan.DeviceModeConfPayload{} },
	},
	true: {
		0x01: func() lorawan.MACCommandPayload { return &lorawan.ResetIndPayload{} },
		0x03: func() lorawan.MACCommandPayload { return &lorawan.LinkADRAnsPayload{} },
		0x05: func() lorawan.MACCommandPayload { return &lorawan.RXParamSetupAnsPayload{} },
		0x06: func() lorawan.MACCommandPayload { return &lorawan.DevStatusAnsPayload{} },
		0x07: func() lorawan.MACCommandPayload { return &lorawan.NewChannelAnsPayload{} },
		0x0A: func() lorawan.MACCommandPayload { return &lorawan.DLChannelAnsPayload{} },
		0x0B: func() lorawan.MACCommandPayload { return &lorawan.RekeyIndPayload{} },
		0x0F: func() lorawan.MACCommandPayload { return &lorawan.RejoinParamSetupAnsPayload{} },
		0x10: func() lorawan.MACCommandPayload { return &lorawan.PingSlotInfoReqPayload{} },
		0x11: func() lorawan.MACCommandPayload { return &lorawan.PingSlotChannelAnsPayload{} },
		0x13: func() lorawan.MACCommandPayload { return &lorawan.BeaconFreqAnsPayload{} },
		0x20: func() lorawan.MACCommandPayload { return &lorawan.DeviceModeIndPayload{} },
	},
}

// sureValue draws an API value that is certainly inside the spec range of f.
func sureValue(r *core.RNG, f spec.Field) int64 {
	edge := r.Chance(1, 4)
	switch f.Kind {
	case spec.KBool:
		return int64(r.Intn(2))
	case spec.KRFUBool:
		return 0
	case spec.KSigned6:
		if edge {
			return []int64{-32, -1, 0, 31, -31, 30}[r.Intn(6)]
		}
		return int64(r.Range(-32, 31))
	case spec.KFreq100:
		if edge {
			return []int64{0, 100, 1677721500, 868100000, 1677721400}[r.Intn(5)]
		}
		return int64(r.Intn(1<<24)) * 100
	case spec.KFreqNewCh:
		switch r.Intn(6) {
		case 0:
			return []int64{0, 100, 1199999900, 2400000000, 2400000200, 3355443000, 868100000, 2479000000}[r.Intn(8)]
		case 1:
			return 2400000000 + int64(r.Intn((1<<24)-12000000))*200
		default:
			return int64(r.Intn(12000000)) * 100
		}
	case spec.KGPSTime:
		sec := int64(r.U32())
		if edge {
			sec = []int64{0, 1, 0xffffffff, 0xfffffffe, 1 << 31}[r.Intn(5)]
		}
		frac := int64(r.Intn(256))
		sub := int64(0)
		if r.Bool() {
			sub = int64(r.Intn(3906250)) // below wire resolution
		}
		return sec*1000000000 + frac*3906250 + sub
	}
	if f.SureSet != nil {
		return f.SureSet[r.Intn(len(f.SureSet))]
	}
	if edge {
		return []int64{0, f.SureMax}[r.Intn(2)]
	}
	return int64(r.Intn(int(f.SureMax) + 1))
}

// genMACCommand builds one spec-valid MAC command for the direction: the
// library value (built through reflection from the field values) and the
// bytes the spec table prescribes for it.
func genMACCommand(r *core.RNG, uplink bool, maxLen int) (*lorawan.MACCommand, []byte) {
	// candidates that fit
	var cands []*spec.Layout
	for _, l := range spec.MACLayouts {
		if l.Uplink == uplink && l.Size+1 <= maxLen {
			cands = append(cands, l)
		}
	}
	pick := r.Intn(len(cands) + 3)
	if maxLen < 1 {
		return nil, nil
	}
	if pick >= len(cands) {
		// a command without payload: spec-defined, proprietary (unregistered) or unknown CID
		var cid byte
		switch r.Intn(3) {
		case 0:
			np := spec.MACNoPayload[uplink]
			cid = np[r.Intn(len(np))]
		case 1:
			cid = byte(0x80 + r.Intn(0x60)) // proprietary range, below the CIDs the registry monitors use (0xE0..)
		default:
			np := spec.MACNoPayload[uplink]
			cid = np[r.Intn(len(np))]
		}
		return &lorawan.MACCommand{CID: lorawan.CID(cid)}, []byte{cid}
	}
	return genMACCommandOf(r, uplink, cands[pick])
}

// genMACCommandOf generates one command of the given layout with in-range, wire-exact values.
func genMACCommandOf(r *core.RNG, uplink bool, l *spec.Layout) (*lorawan.MACCommand, []byte) {
	vals := make([]int64, len(l.Fields))
	for i, f := range l.Fields {
		vals[i] = f.WireResolution(sureValue(r, f)) // frames carry wire-exact values
	}
	pl := macCtor[uplink][l.CID]()
	if err := core.Fill(pl, vals); err != nil {
		panic(fmt.Sprintf("harness table/struct mismatch for %s: %v", l.Name, err))
	}
	b, err := l.Encode(vals)
	if err != nil {
		panic(err)
	}
	return &lorawan.MACCommand{CID: lorawan.CID(l.CID), Payload: pl}, append([]byte{l.CID}, b...)
}

// genMACStream builds a command sequence whose encoding is exactly n bytes
// (n >= 0) when exact is set, or at most n bytes otherwise.
func genMACStream(r *core.RNG, uplink bool, n int, exact bool) ([]lorawan.Payload, []byte) {
	var cmds []lorawan.Payload
	var bytes []byte
	for len(bytes) < n {
		if !exact && len(cmds) > 0 && r.Chance(1, 6) {
			break
		}
		c, b := genMACCommand(r, uplink, n-len(bytes))
		if c == nil {
			break
		}
		cmds = append(cmds, c)
		bytes = append(bytes, b...)
		// blocks of the same command with different values (several LinkADRReq in a row, two NewChannelReq, ...)
		if l := spec.MACLayout(uplink, b[0]); l != nil && len(b) > 1 && r.Chance(1, 4) {
			for k := 1 + r.Intn(3); k > 0 && len(bytes)+len(b) <= n; k-- {
				c2, b2 := genMACCommandOf(r, uplink, l)
				cmds = append(cmds, c2)
				bytes = append(bytes, b2...)
			}
		}
	}
	return cmds, bytes
}

// dataCase is one generated data frame in both views.
type dataCase struct {
	Spec     spec.DataFrame    // plaintext FOpts / FRMPayload bytes
	FOpts    []lorawan.Payload // library view of FOpts (MAC commands, or one DataPayload when raw)
	FOptsRaw bool
	FRM      []lorawan.Payload // library view of FRMPayload
	FRMIsMAC bool
	FPending bool
	ClassB   bool
	portKind string
	// Cuts, when set, makes Lib() hand the application payload over as several
	// DataPayload items (cut points into Spec.FRMPayload; an item may be empty).
	// FRM stays the canonical single-item view that decoders produce.
	Cuts []int
	// SameItemTwice: the payload is one *DataPayload listed twice (the same pointer in two positions).
	SameItemTwice bool
}

type dataGenOpts struct {
	mtype    int // 0 = any data MType
	foptsLen int // -1 = random
	portKind int // -1 random, 0 absent, 1 port0, 2 port>0
	frmLen   int // -1 random
	macInFRM int // -1 random
	rawFOpts int // -1 random
	maxFRM   int
}

func anyData() dataGenOpts {
	return dataGenOpts{foptsLen: -1, portKind: -1, frmLen: -1, macInFRM: -1, rawFOpts: -1, maxFRM: 242}
}

func genDataCase(r *core.RNG, o dataGenOpts) dataCase {
	var d dataCase
	mt := o.mtype
	if mt == 0 {
		mt = 2 + r.Intn(4)
	}
	d.Spec.MType = byte(mt)
	if r.Chance(1, 8) {
		d.Spec.Major = mj(byte(r.Intn(4)))
	}
	r.Fill(d.Spec.DevAddr[:])
	if r.Chance(1, 4) {
		// addresses as networks hand them out: the type prefix of one of the 8 NetID types, a small NwkID
		// (NetID 000000 / 000001 are the experimental networks), or a multicast-looking / all-ones address
		t := uint(r.Intn(8))
		a := (uint32(0xff) << (8 - t) & 0xff) << 24 // t ones followed by a zero
		nwkBits := []uint{6, 6, 9, 11, 12, 13, 15, 17}[t]
		shift := 32 - (t + 1) - nwkBits
		a |= uint32(r.Intn(3)) << shift
		a |= r.U32() & (1<<shift - 1)
		if r.Chance(1, 6) {
			a = []uint32{0, 0xffffffff, 0x00000001, 0x01ffffff, 0x02000000, 0xfc000000, 0xfe000000}[r.Intn(7)]
		}
		d.Spec.DevAddr = [4]byte{byte(a >> 24), byte(a >> 16), byte(a >> 8), byte(a)}
	}
	d.Spec.ADR, d.Spec.ADRACKReq, d.Spec.ACK, d.Spec.Bit4 = r.Bool(), r.Bool(), r.Bool(), r.Bool()
	if d.Spec.Bit4 {
		// bit 4 is ClassB in an uplink and FPending in a downlink: the flag of the frame's direction is set,
		// the other one (which means nothing in this direction) sometimes along with it
		both := r.Intn(3) == 2
		if mt%2 == 0 {
			d.ClassB, d.FPending = true, both
		} else {
			d.FPending, d.ClassB = true, both
		}
	}
	d.Spec.FCnt = r.U32Edge()
	if r.Chance(1, 10) {
		d.Spec.FCnt = uint32(1+r.Intn(0xffff)) << 16 // just after a 16-bit rollover: low half zero, upper half not
		if r.Bool() {
			d.Spec.FCnt |= uint32(r.Intn(3))
		}
	}
	up := d.Spec.Uplink()

	pk := o.portKind
	if pk < 0 {
		pk = r.Intn(4)
		if pk == 3 {
			pk = 2
		}
	}
	fl := o.foptsLen
	if fl < 0 {
		if r.Chance(1, 3) {
			fl = 0
		} else {
			fl = r.Intn(16)
		}
	}
	if pk == 1 {
		fl = 0 // FPort 0 is not combined with FOpts
	}
	raw := o.rawFOpts
	if raw < 0 {
		raw = 0
		if r.Chance(1, 4) {
			raw = 1
		}
	}
	if fl > 0 {
		if raw == 1 {
			b := r.Bytes(fl)
			d.Spec.FOpts = b
			d.FOpts = []lorawan.Payload{&lorawan.DataPayload{Bytes: append([]byte{}, b...)}}
			d.FOptsRaw = true
		} else {
			d.FOpts, d.Spec.FOpts = genMACStream(r, up, fl, true)
		}
	}

	maxFRM := o.maxFRM - fl
	if o.maxFRM == 242 && r.Chance(1, 4) {
		maxFRM = 242 // FOpts and a full-size FRMPayload together (the property bounds them independently)
	}
	switch pk {
	case 0:
		d.Spec.FPort = -1
		d.portKind = "absent"
	case 1:
		d.Spec.FPort = 0
		d.portKind = "0"
		mac := o.macInFRM
		if mac < 0 {
			mac = r.Intn(2)
		}
		n := o.frmLen
		if n < 0 {
			n = lenClass(r, maxFRM)
		}
		if mac == 1 {
			d.FRM, d.Spec.FRMPayload = genMACStream(r, up, n, o.frmLen >= 0)
			d.FRMIsMAC = true
		} else if n > 0 {
			b := r.Bytes(n)
			d.Spec.FRMPayload = b
			d.FRM = []lorawan.Payload{&lorawan.DataPayload{Bytes: append([]byte{}, b...)}}
		}
	default:
		d.Spec.FPort = 1 + r.Intn(255)
		if r.Chance(1, 6) {
			d.Spec.FPort = []int{1, 223, 224, 225, 255, 200, 201, 202, 203, 199}[r.Intn(10)] // application-layer packages, certification port, neighbours
		}
		d.portKind = ">0"
		n := o.frmLen
		if n < 0 {
			n = lenClass(r, maxFRM)
		}
		if n > 0 {
			b := r.Bytes(n)
			if r.Chance(1, 6) {
				b[0] = []byte{0x00, 0x02, 0x03, 0x06, 0x0d, 0x80, 0xe0, 0xff}[r.Intn(8)] // first bytes that mean something to another layer
			}
			if r.Chance(1, 10) {
				// content with structure: one repeated byte, a short repeated pattern, the frame's own address or
				// header bytes inside the payload, a 16-byte block repeated (equal cipher blocks)
				switch r.Intn(5) {
				case 0:
					for i := range b {
						b[i] = b[0]
					}
				case 1:
					for i := range b {
						b[i] = b[i%2]
					}
				case 2:
					copy(b, []byte{d.Spec.DevAddr[3], d.Spec.DevAddr[2], d.Spec.DevAddr[1], d.Spec.DevAddr[0]})
				case 3:
					copy(b, []byte{d.Spec.MType << 5, d.Spec.DevAddr[3], d.Spec.DevAddr[2], d.Spec.DevAddr[1], d.Spec.DevAddr[0], 0x80})
				default:
					for i := 16; i < len(b); i++ {
						b[i] = b[i%16]
					}
				}
			}
			if 2*n <= maxFRM && r.Chance(1, 16) {
				b = append(append([]byte{}, b...), b...)
				d.SameItemTwice = true
			}
			d.Spec.FRMPayload = b
			d.FRM = []lorawan.Payload{&lorawan.DataPayload{Bytes: append([]byte{}, b...)}}
			if !d.SameItemTwice && r.Chance(1, 6) {
				for k := 1 + r.Intn(3); k > 0; k-- {
					d.Cuts = append(d.Cuts, r.Intn(n+1))
				}
				sort.Ints(d.Cuts)
			}
		}
	}
	return d
}

func lenClass(r *core.RNG, max int) int {
	if max <= 0 {
		return 0
	}
	switch r.Intn(8) {
	case 0:
		return 0
	case 1:
		return max
	case 2:
		return []int{1, 15, 16, 17, 31, 32, 33, 47, 48, 49}[r.Intn(10)] % (max + 1)
	case 3:
		return max - r.Intn(3)%(max+1)
	default:
		return r.Intn(max + 1)
	}
}

// Lib builds a fresh library value for the case (payload slices are copied so
// that the library cannot alias generator state).
func (d dataCase) Lib() lorawan.PHYPayload {
	mp := &lorawan.MACPayload{}
	mp.FHDR.DevAddr = lorawan.DevAddr(d.Spec.DevAddr)
	mp.FHDR.FCtrl = lorawan.FCtrl{ADR: d.Spec.ADR, ADRACKReq: d.Spec.ADRACKReq, ACK: d.Spec.ACK, FPending: d.FPending, ClassB: d.ClassB}
	mp.FHDR.FCnt = d.Spec.FCnt
	mp.FHDR.FOpts = clonePayloads(d.FOpts)
	if d.Spec.FPort >= 0 {
		p := uint8(d.Spec.FPort)
		mp.FPort = &p
	}
	mp.FRMPayload = clonePayloads(d.FRM)
	// "nothing" comes in several shapes: nil, an empty list, a list holding one empty item
	if len(d.Spec.FOpts) == 0 && d.Spec.FCnt%3 == 1 {
		mp.FHDR.FOpts = []lorawan.Payload{}
	}
	if len(d.Spec.FRMPayload) == 0 {
		switch d.Spec.FCnt % 4 {
		case 1:
			mp.FRMPayload = []lorawan.Payload{}
		case 2:
			if d.Spec.FPort > 0 {
				mp.FRMPayload = []lorawan.Payload{&lorawan.DataPayload{}}
			}
		case 3:
			if d.Spec.FPort > 0 {
				mp.FRMPayload = []lorawan.Payload{&lorawan.DataPayload{Bytes: []byte{}}}
			}
		}
	}
	if n := len(d.Spec.FRMPayload); d.SameItemTwice && !d.FRMIsMAC && n%2 == 0 && bytes.Equal(d.Spec.FRMPayload[:n/2], d.Spec.FRMPayload[n/2:]) {
		// (a monitor that perturbed the payload afterwards has broken the "two equal halves" shape: then the other shapes apply)
		half := &lorawan.DataPayload{Bytes: append([]byte{}, d.Spec.FRMPayload[:len(d.Spec.FRMPayload)/2]...)}
		mp.FRMPayload = []lorawan.Payload{half, half}
		return lorawan.PHYPayload{MHDR: lorawan.MHDR{MType: lorawan.MType(d.Spec.MType), Major: lorawan.Major(d.Spec.Major)}, MACPayload: mp}
	}
	// an application payload of a caller-defined Payload type instead of *DataPayload
	if !d.FRMIsMAC && len(d.Spec.FRMPayload) > 0 && len(d.Cuts) == 0 && d.Spec.FCnt%7 == 3 {
		mp.FRMPayload = []lorawan.Payload{&userPayload{B: append([]byte{}, d.Spec.FRMPayload...)}}
	}
	if len(d.Cuts) > 0 && !d.FRMIsMAC {
		mp.FRMPayload = nil
		prev := 0
		for _, c := range append(append([]int{}, d.Cuts...), len(d.Spec.FRMPayload)) {
			mp.FRMPayload = append(mp.FRMPayload, &lorawan.DataPayload{Bytes: append([]byte{}, d.Spec.FRMPayload[prev:c]...)})
			prev = c
		}
	}
	return lorawan.PHYPayload{
		MHDR:       lorawan.MHDR{MType: lorawan.MType(d.Spec.MType), Major: lorawan.Major(d.Spec.Major)},
		MACPayload: mp,
	}
}

// userPayload is a caller-defined implementation of lorawan.Payload (the interface is exported so
// that applications can bring their own payload types); on the wire it is just its bytes.
type userPayload struct{ B []byte }

func (p userPayload) MarshalBinary() ([]byte, error) { return append([]byte{}, p.B...), nil }
func (p *userPayload) UnmarshalBinary(uplink bool, data []byte) error {
	p.B = append([]byte{}, data...)
	return nil
}

func clonePayloads(in []lorawan.Payload) []lorawan.Payload {
	if in == nil {
		return nil
	}
	out := make([]lorawan.Payload, len(in))
	for i, p := range in {
		switch v := p.(type) {
		case *lorawan.DataPayload:
			out[i] = &lorawan.DataPayload{Bytes: append([]byte{}, v.Bytes...)}
		case *lorawan.MACCommand:
			c := &lorawan.MACCommand{CID: v.CID}
			if v.Payload != nil {
				nv := reflect.New(reflect.TypeOf(v.Payload).Elem())
				nv.Elem().Set(reflect.ValueOf(v.Payload).Elem())
				c.Payload = nv.Interface().(lorawan.MACCommandPayload)
				if pp, ok := c.Payload.(*lorawan.ProprietaryMACCommandPayload); ok {
					pp.Bytes = append([]byte{}, pp.Bytes...)
				}
			}
			out[i] = c
		default:
			out[i] = p
		}
	}
	return out
}

// key16 draws a 128-bit key: mostly random, sometimes the all-zero key, the
// all-ones key, or the key this stream produced last (process-level caches
// keyed on the wrong thing only show with special or repeated keys).
// keys this process has used, in order of first use (a device fleet: many keys, and old ones come back)
var (
	keyHistMu sync.Mutex
	keyHist   [][16]byte
)

func key16(r *core.RNG) [16]byte {
	var k [16]byte
	switch r.Intn(16) {
	case 4:
		// a key this process used long ago (more than 256 keys back): whatever the library keeps per key must still be right
		keyHistMu.Lock()
		if n := len(keyHist); n >= 400 {
			k = keyHist[r.Intn(n-300)]
			keyHistMu.Unlock()
			r.LastKey, r.HasLastKey = k, true
			return k
		}
		keyHistMu.Unlock()
		r.Fill(k[:])
	case 0:
		// all-zero
	case 1:
		if r.Bool() {
			for i := range k {
				k[i] = 0xff
			}
		} else {
			k[15] = 1
		}
	case 2, 3:
		if r.HasLastKey {
			return r.LastKey
		}
		r.Fill(k[:])
	default:
		r.Fill(k[:])
	}
	r.LastKey, r.HasLastKey = k, true
	keyHistMu.Lock()
	if len(keyHist) < 20000 {
		keyHist = append(keyHist, k)
	}
	keyHistMu.Unlock()
	return k
}

func eui(r *core.RNG) [8]byte {
	var e [8]byte
	switch r.Intn(12) {
	case 0: // all-zero is a valid identifier
	case 1:
		for i := range e {
			e[i] = 0xff
		}
	default:
		r.Fill(e[:])
	}
	return e
}

// payloadBytes concatenates the plain bytes of a payload list using only
// DataPayload contents (used on decoded frames before MAC decoding).
func payloadBytes(ps []lorawan.Payload) ([]byte, bool) {
	var out []byte
	for _, p := range ps {
		dp, ok := p.(*lorawan.DataPayload)
		if !ok {
			return nil, false
		}
		out = append(out, dp.Bytes...)
	}
	return out, true
}

func short(s string, n int) string {
	if len(s) > n {
		return s[:n] + "…"
	}
	return s
}
