package mon

import (
	"bytes"
	"encoding/base64"
	"fmt"

	"github.com/brocaar/lorawan"

	"lwverif/core"
	"lwverif/spec"
)

func init() {
	core.Register(&core.Property{
		ID:   "C01",
		Rule: "seeded generator of spec-valid frames for all 8 MTypes (data frames: all FCtrl flag combinations, FOpts as valid MAC-command streams of exact length 0..15 or raw bytes, FPort absent/0/1..255, FRMPayload 0..242-FOptsLen bytes or port-0 MAC-command lists; join-request; rejoin 0/1/2; join-accept 12/28 bytes through encrypt->marshal->unmarshal->decrypt; proprietary) plus the complete boundary grid FOptsLen x FPort-kind x payload length {0,1,2,15,16,17,241,max}; oracle: real MarshalBinary/MarshalText must succeed and real UnmarshalBinary/UnmarshalText of the output must give back every field. A shape is distinct by (MType, FOptsLen, FPort kind, payload-length class, FCtrl flag bits, raw-vs-MAC FOpts).",
		Assumptions: []string{
			"encoding/base64 and crypto/aes of the Go standard library are trusted",
			"CFList channel-mask lists are compared modulo trailing all-zero masks (indistinguishable from RFU padding on the wire)",
		},
		MinEvals: 1000,
		Run:      runC01,
	})
}

func lenClassName(n int) string {
	switch {
	case n == 0:
		return "0"
	case n <= 2:
		return "1-2"
	case n < 15:
		return "3-14"
	case n <= 17:
		return "15-17"
	case n < 200:
		return "18-199"
	case n < 241:
		return "200-240"
	default:
		return "241+"
	}
}

// checkDataRoundTrip is the C01 oracle for one data frame.
func checkDataRoundTrip(c *core.Ctx, d dataCase, mic [4]byte) {
	checkDataRoundTripOn(c, d, mic, nil)
}

// checkDataRoundTripOn: when base is given, the frame value is produced the way
// applications often do it - by editing a frame that was decoded before.
func checkDataRoundTripOn(c *core.Ctx, d dataCase, mic [4]byte, base *lorawan.PHYPayload) {
	phy := d.Lib()
	if base != nil {
		if bmp, ok := base.MACPayload.(*lorawan.MACPayload); ok {
			fresh := phy.MACPayload.(*lorawan.MACPayload)
			bmp.FHDR.DevAddr, bmp.FHDR.FCnt, bmp.FHDR.FOpts = fresh.FHDR.DevAddr, fresh.FHDR.FCnt, fresh.FHDR.FOpts
			bmp.FHDR.FCtrl.ADR, bmp.FHDR.FCtrl.ADRACKReq, bmp.FHDR.FCtrl.ACK, bmp.FHDR.FCtrl.FPending, bmp.FHDR.FCtrl.ClassB = fresh.FHDR.FCtrl.ADR, fresh.FHDR.FCtrl.ADRACKReq, fresh.FHDR.FCtrl.ACK, fresh.FHDR.FCtrl.FPending, fresh.FHDR.FCtrl.ClassB
			bmp.FPort, bmp.FRMPayload = fresh.FPort, fresh.FRMPayload
			base.MHDR = phy.MHDR
			phy = *base
		}
	}
	phy.MIC = lorawan.MIC(mic)
	var b []byte
	var err error
	c.Eval(1)
	if p, msg := core.Guard(func() { b, err = phy.MarshalBinary() }); p {
		c.Violate("C01|data|marshal-panic|"+core.PanicSite(msg), "frame %s: %s", core.Dump(phy), msg)
		return
	}
	if err != nil {
		c.Violate("C01|data|encode-refused|"+err.Error(), "spec-valid frame refused: %v\nframe=%s", err, short(core.Dump(phy), 900))
		return
	}
	if want := append(d.Spec.Msg(), mic[:]...); !bytes.Equal(b, want) {
		c.Violate("C01|data|wire-differs-from-spec", "frame encodes to %s, the specification's serialisation of the same fields is %s", short(core.Hex(b), 600), short(core.Hex(want), 600))
		return
	}
	var out lorawan.PHYPayload
	if p, msg := core.Guard(func() { err = out.UnmarshalBinary(b) }); p {
		c.Violate("C01|data|unmarshal-panic|"+core.PanicSite(msg), "bytes %s: %s", core.Hex(b), msg)
		return
	}
	if err != nil {
		c.Violate("C01|data|decode-refused|"+err.Error(), "own encoding refused: %v bytes=%s", err, core.Hex(b))
		return
	}
	bad := func(what, format string, a ...interface{}) {
		c.Violate("C01|data|"+what, "%s | mtype=%d foptsLen=%d port=%s frmLen=%d bytes=%s", fmt.Sprintf(format, a...), d.Spec.MType, len(d.Spec.FOpts), d.portKind, len(d.Spec.FRMPayload), short(core.Hex(b), 200))
	}
	if byte(out.MHDR.MType) != d.Spec.MType || byte(out.MHDR.Major) != d.Spec.Major {
		bad("mhdr", "MHDR %v != mtype %d major %d", out.MHDR, d.Spec.MType, d.Spec.Major)
	}
	if out.MIC != lorawan.MIC(mic) {
		bad("mic", "MIC %v != %x", out.MIC, mic)
	}
	mp, ok := out.MACPayload.(*lorawan.MACPayload)
	if !ok {
		bad("payload-type", "decoded payload type %T", out.MACPayload)
		return
	}
	if mp.FHDR.DevAddr != lorawan.DevAddr(d.Spec.DevAddr) {
		bad("devaddr", "DevAddr %v != %x", mp.FHDR.DevAddr, d.Spec.DevAddr)
	}
	fc := mp.FHDR.FCtrl
	// bit 4: the flag of the frame's direction carries it; the other flag has no meaning there (the library
	// sets both), but it cannot be set when the bit is clear
	dirFlag, otherFlag := fc.FPending, fc.ClassB
	if d.Spec.Uplink() {
		dirFlag, otherFlag = fc.ClassB, fc.FPending
	}
	if fc.ADR != d.Spec.ADR || fc.ADRACKReq != d.Spec.ADRACKReq || fc.ACK != d.Spec.ACK || dirFlag != d.Spec.Bit4 || (otherFlag && !d.Spec.Bit4) {
		bad("fctrl", "FCtrl %+v != adr=%v adrackreq=%v ack=%v bit4=%v", fc, d.Spec.ADR, d.Spec.ADRACKReq, d.Spec.ACK, d.Spec.Bit4)
	}
	if mp.FHDR.FCnt != d.Spec.FCnt&0xffff {
		bad("fcnt", "FCnt %d != %d mod 2^16", mp.FHDR.FCnt, d.Spec.FCnt)
	}
	if (mp.FPort == nil) != (d.Spec.FPort < 0) || (mp.FPort != nil && int(*mp.FPort) != d.Spec.FPort) {
		bad("fport", "FPort %v != %d", mp.FPort, d.Spec.FPort)
	}
	// FOpts
	if len(d.Spec.FOpts) == 0 {
		if bs, ok := payloadBytes(mp.FHDR.FOpts); !ok || len(bs) != 0 {
			bad("fopts", "FOpts not empty: %s", core.Dump(mp.FHDR.FOpts))
		}
	} else if d.FOptsRaw {
		if bs, ok := payloadBytes(mp.FHDR.FOpts); !ok || !bytes.Equal(bs, d.Spec.FOpts) {
			bad("fopts", "FOpts bytes %s != %x", core.Dump(mp.FHDR.FOpts), d.Spec.FOpts)
		}
	} else {
		if p, msg := core.Guard(func() { err = out.DecodeFOptsToMACCommands() }); p {
			bad("fopts-decode-panic", "%s", msg)
		} else if err != nil {
			bad("fopts-decode", "DecodeFOptsToMACCommands: %v (fopts %x)", err, d.Spec.FOpts)
		} else if got, want := core.Dump(mp.FHDR.FOpts), core.Dump(d.FOpts); got != want {
			bad("fopts-commands", "FOpts commands differ:\n got  %s\n want %s", short(got, 500), short(want, 500))
		}
	}
	// FRMPayload
	if len(d.Spec.FRMPayload) == 0 {
		if bs, ok := payloadBytes(mp.FRMPayload); !ok || len(bs) != 0 {
			bad("frm", "FRMPayload not empty: %s", short(core.Dump(mp.FRMPayload), 200))
		}
	} else if d.FRMIsMAC {
		if p, msg := core.Guard(func() { err = out.DecodeFRMPayloadToMACCommands() }); p {
			bad("frm-decode-panic", "%s", msg)
		} else if err != nil {
			bad("frm-decode", "DecodeFRMPayloadToMACCommands: %v", err)
		} else if got, want := core.Dump(mp.FRMPayload), core.Dump(d.FRM); got != want {
			bad("frm-commands", "port-0 commands differ:\n got  %s\n want %s", short(got, 500), short(want, 500))
		}
	} else {
		if bs, ok := payloadBytes(mp.FRMPayload); !ok || !bytes.Equal(bs, d.Spec.FRMPayload) {
			bad("frm", "FRMPayload bytes differ: got %s want %x", short(core.Dump(mp.FRMPayload), 200), d.Spec.FRMPayload)
		}
	}
	// text form
	checkText(c, phy, b, "data")

	var flags byte
	if d.Spec.ADR {
		flags |= 8
	}
	if d.Spec.ADRACKReq {
		flags |= 4
	}
	if d.Spec.ACK {
		flags |= 2
	}
	if d.Spec.Bit4 {
		flags |= 1
	}
	c.Shape("data", d.Spec.MType, len(d.Spec.FOpts), d.portKind, lenClassName(len(d.Spec.FRMPayload)), flags, d.FOptsRaw, d.FRMIsMAC)
	c.Count("frames.mtype"+fmt.Sprint(d.Spec.MType), 1)
}

// checkText: MarshalText must be std-base64 of the binary form and
// UnmarshalText must give the same frame as UnmarshalBinary.
func checkText(c *core.Ctx, phy lorawan.PHYPayload, bin []byte, kind string) {
	var txt []byte
	var err error
	c.Eval(1)
	if p, msg := core.Guard(func() { txt, err = phy.MarshalText() }); p || err != nil {
		c.Violate("C01|"+kind+"|text-marshal", "MarshalText failed: %v %s", err, msg)
		return
	}
	if string(txt) != base64.StdEncoding.EncodeToString(bin) {
		c.Violate("C01|"+kind+"|text-form", "MarshalText %q is not std-base64 of %x", txt, bin)
		return
	}
	var a, b2 lorawan.PHYPayload
	if p, msg := core.Guard(func() { err = a.UnmarshalText(txt) }); p || err != nil {
		c.Violate("C01|"+kind+"|text-unmarshal", "UnmarshalText failed: %v %s", err, msg)
		return
	}
	if err := b2.UnmarshalBinary(bin); err != nil {
		return
	}
	if core.Dump(a) != core.Dump(b2) {
		c.Violate("C01|"+kind+"|text-differs", "UnmarshalText != UnmarshalBinary for %x", bin)
	}
}

// simpleRoundTrip handles the fixed-layout frame types.
func simpleRoundTrip(c *core.Ctx, kind string, phy lorawan.PHYPayload) {
	var b []byte
	var err error
	c.Eval(1)
	if p, msg := core.Guard(func() { b, err = phy.MarshalBinary() }); p {
		c.Violate("C01|"+kind+"|marshal-panic|"+core.PanicSite(msg), "%s: %s", core.Dump(phy), msg)
		return
	}
	if err != nil {
		c.Violate("C01|"+kind+"|encode-refused|"+err.Error(), "spec-valid frame refused: %v frame=%s", err, core.Dump(phy))
		return
	}
	var out lorawan.PHYPayload
	if p, msg := core.Guard(func() { err = out.UnmarshalBinary(b) }); p {
		c.Violate("C01|"+kind+"|unmarshal-panic|"+core.PanicSite(msg), "%x: %s", b, msg)
		return
	}
	if err != nil {
		c.Violate("C01|"+kind+"|decode-refused|"+err.Error(), "own encoding refused: %v bytes=%x", err, b)
		return
	}
	if got, want := core.Dump(out), core.Dump(phy); got != want {
		c.Violate("C01|"+kind+"|differs", "decode(encode(x)) != x\n got  %s\n want %s\n bytes %x", got, want, b)
	}
	checkText(c, phy, b, kind)
	c.Shape(kind, len(b), phy.MHDR.Major)
	c.Count("frames."+kind, 1)
}

func stripZeroMasks(p *lorawan.JoinAcceptPayload) {
	if p.CFList == nil {
		return
	}
	if m, ok := p.CFList.Payload.(*lorawan.CFListChannelMaskPayload); ok {
		var zero lorawan.ChMask
		for len(m.ChannelMasks) > 0 && m.ChannelMasks[len(m.ChannelMasks)-1] == zero {
			m.ChannelMasks = m.ChannelMasks[:len(m.ChannelMasks)-1]
		}
	}
}

func genJoinAccept(r *core.RNG) *lorawan.JoinAcceptPayload {
	ja := &lorawan.JoinAcceptPayload{}
	switch r.Intn(5) {
	case 0:
		ja.JoinNonce = lorawan.JoinNonce([]uint32{0, 1, 1<<24 - 1, 1<<24 - 2, 0x010203, 0x000100, 0x010000, 0x00ffff, 0x0000ff}[r.Intn(9)])
	default:
		ja.JoinNonce = lorawan.JoinNonce(r.Intn(1 << 24))
	}
	r.Fill(ja.HomeNetID[:])
	r.Fill(ja.DevAddr[:])
	ja.DLSettings = lorawan.DLSettings{OptNeg: r.Bool(), RX2DataRate: uint8(r.Intn(16)), RX1DROffset: uint8(r.Intn(8))}
	ja.RXDelay = uint8(r.Intn(16))
	switch r.Intn(3) {
	case 1:
		var pl lorawan.CFListChannelPayload
		n := r.Intn(6)
		holes := r.Chance(1, 3) // unused entries (frequency 0) anywhere in the list, not only at its end
		if holes {
			n = 5
		}
		for i := 0; i < n; i++ {
			if holes && r.Chance(2, 5) {
				continue
			}
			if r.Chance(1, 5) {
				pl.Channels[i] = []uint32{100, 1677721500, 868100000, 1677721400}[r.Intn(4)]
			} else {
				pl.Channels[i] = uint32(r.Intn(1<<24)) * 100
			}
			if i > 0 && r.Chance(1, 8) {
				pl.Channels[i] = pl.Channels[r.Intn(i)] // the same frequency in two slots (two channels with different roles)
			}
		}
		ja.CFList = &lorawan.CFList{CFListType: lorawan.CFListChannel, Payload: &pl}
	case 2:
		var pl lorawan.CFListChannelMaskPayload
		n := r.Intn(7)
		for i := 0; i < n; i++ {
			var m lorawan.ChMask
			v := r.U32()
			if r.Chance(1, 6) {
				v = 0
			}
			for k := 0; k < 16; k++ {
				m[k] = v>>uint(k)&1 == 1
			}
			pl.ChannelMasks = append(pl.ChannelMasks, m)
		}
		ja.CFList = &lorawan.CFList{CFListType: lorawan.CFListChannelMask, Payload: &pl}
	}
	return ja
}

func cloneJoinAccept(in *lorawan.JoinAcceptPayload) *lorawan.JoinAcceptPayload {
	out := *in
	if in.CFList != nil {
		cf := *in.CFList
		switch v := in.CFList.Payload.(type) {
		case *lorawan.CFListChannelPayload:
			cp := *v
			cf.Payload = &cp
		case *lorawan.CFListChannelMaskPayload:
			cp := lorawan.CFListChannelMaskPayload{ChannelMasks: append([]lorawan.ChMask{}, v.ChannelMasks...)}
			cf.Payload = &cp
		}
		out.CFList = &cf
	}
	return &out
}

func joinAcceptRoundTrip(c *core.Ctx, r *core.RNG) {
	ja := genJoinAccept(r)
	orig := cloneJoinAccept(ja)
	key := lorawan.AES128Key(key16(r))
	var mic lorawan.MIC
	r.Fill(mic[:])
	phy := lorawan.PHYPayload{MHDR: lorawan.MHDR{MType: lorawan.JoinAccept, Major: lorawan.Major(0)}, MACPayload: ja, MIC: mic}
	var err error
	c.Eval(1)
	if p, msg := core.Guard(func() { err = phy.EncryptJoinAcceptPayload(key) }); p || err != nil {
		c.Violate("C01|joinaccept|encrypt-refused", "EncryptJoinAcceptPayload on spec-valid payload: %v %s\n%s", err, msg, core.Dump(orig))
		return
	}
	var b []byte
	if p, msg := core.Guard(func() { b, err = phy.MarshalBinary() }); p || err != nil {
		c.Violate("C01|joinaccept|encode-refused", "MarshalBinary: %v %s", err, msg)
		return
	}
	wantLen := 1 + 12 + 4
	if orig.CFList != nil {
		wantLen += 16
	}
	if len(b) != wantLen {
		c.Violate("C01|joinaccept|length", "join-accept is %d bytes, want %d", len(b), wantLen)
	}
	// the bytes on the air are the ones a device of the specification would decrypt to the same fields,
	// and the frame such a network would send decodes to the same value (a library-only round trip
	// cannot tell a symmetric deviation from the specification)
	sj := specJoinAccept(orig)
	if ct, e := spec.JoinAcceptEncrypt([16]byte(key), sj.Payload(), [4]byte(mic)); e == nil {
		want := append([]byte{b[0]}, ct...)
		if !bytes.Equal(want, b) {
			c.Violate("C01|joinaccept|wire-differs-from-spec", "join-accept on the wire %x, specification (MHDR | aes128_decrypt(payload|MIC)) %x\n%s", b, want, core.Dump(orig))
		}
		var fromSpec lorawan.PHYPayload
		if p, msg := core.Guard(func() {
			if err = fromSpec.UnmarshalBinary(want); err == nil {
				err = fromSpec.DecryptJoinAcceptPayload(key)
			}
		}); p || err != nil {
			c.Violate("C01|joinaccept|spec-frame-refused", "decoding the specification's join-accept %x: %v %s", want, err, msg)
		} else if g, ok := fromSpec.MACPayload.(*lorawan.JoinAcceptPayload); ok {
			stripZeroMasks(g)
			w := cloneJoinAccept(orig)
			stripZeroMasks(w)
			if core.Dump(g) != core.Dump(w) || fromSpec.MIC != mic {
				c.Violate("C01|joinaccept|spec-frame-differs", "the specification's join-accept %x decodes to\n %s mic %v\nwant %s mic %v", want, core.Dump(g), fromSpec.MIC, core.Dump(w), mic)
			}
		}
	}
	var out lorawan.PHYPayload
	if p, msg := core.Guard(func() { err = out.UnmarshalBinary(b) }); p || err != nil {
		c.Violate("C01|joinaccept|decode-refused", "UnmarshalBinary: %v %s bytes=%x", err, msg, b)
		return
	}
	if p, msg := core.Guard(func() { err = out.DecryptJoinAcceptPayload(key) }); p || err != nil {
		c.Violate("C01|joinaccept|decrypt-refused", "DecryptJoinAcceptPayload: %v %s bytes=%x", err, msg, b)
		return
	}
	got, ok := out.MACPayload.(*lorawan.JoinAcceptPayload)
	if !ok {
		c.Violate("C01|joinaccept|payload-type", "%T", out.MACPayload)
		return
	}
	stripZeroMasks(got)
	stripZeroMasks(orig)
	if g, w := core.Dump(got), core.Dump(orig); g != w || out.MIC != mic || out.MHDR != phy.MHDR {
		c.Violate("C01|joinaccept|differs", "join-accept round trip differs\n got  %s mic %v\n want %s mic %v", g, out.MIC, w, mic)
	}
	checkText(c, phy, b, "joinaccept")
	cf := "none"
	if orig.CFList != nil {
		cf = fmt.Sprint(orig.CFList.CFListType)
	}
	c.Shape("joinaccept", cf, orig.DLSettings.OptNeg, orig.RXDelay)
	c.Count("frames.joinaccept", 1)
}

func runC01(c *core.Ctx) {
	// 1. random data frames
	n := c.N(200000, 40000000)
	for i := int64(0); i < n; i++ {
		if !c.Mine("data-random", i) {
			continue
		}
		r := c.RNG("data-random", i)
		d := genDataCase(r, anyData())
		var mic [4]byte
		r.Fill(mic[:])
		if c.WantSample("data-random") {
			c.Sample("data-random", map[string]interface{}{"mtype": d.Spec.MType, "devaddr": core.Hex(d.Spec.DevAddr[:]), "fcnt": d.Spec.FCnt, "fopts": core.Hex(d.Spec.FOpts), "fport": d.Spec.FPort, "frmpayload_len": len(d.Spec.FRMPayload), "wire": core.Hex(append(d.Spec.Msg(), mic[:]...))})
		}
		checkDataRoundTrip(c, d, mic)
		if i%4 == 0 {
			// the same value built by editing a frame that was decoded before
			prev := genDataCase(r, anyData())
			var base lorawan.PHYPayload
			if base.UnmarshalBinary(append(prev.Spec.Msg(), 9, 9, 9, 9)) == nil {
				if i%8 == 0 {
					// ... and that was, in between, refused by the encoder (an error path must not leave anything behind)
					if bmp, ok := base.MACPayload.(*lorawan.MACPayload); ok {
						keep := bmp.FHDR.FOpts
						bmp.FHDR.FOpts = []lorawan.Payload{&lorawan.DataPayload{Bytes: r.Bytes(16 + r.Intn(5))}}
						if _, err := base.MarshalBinary(); err == nil {
							c.Violate("C01|data|overlong-fopts-encoded", "a frame with more than 15 bytes of FOpts was encoded")
						}
						bmp.FHDR.FOpts = keep
						c.Count("frames.edited-after-refused-encode", 1)
					}
				}
				checkDataRoundTripOn(c, d, mic, &base)
				c.Count("frames.edited-after-decode", 1)
			}
		}
	}

	// 2. boundary grid of the header length arithmetic (complete in both tiers)
	idx := int64(0)
	for mt := 2; mt <= 5; mt++ {
		for fl := 0; fl <= 15; fl++ {
			for pk := 0; pk <= 2; pk++ {
				if pk == 1 && fl > 0 {
					continue
				}
				lens := []int{0, 1, 2, 15, 16, 17, 241, 242 - fl}
				if pk == 0 {
					lens = []int{0}
				}
				for _, ln := range lens {
					for raw := 0; raw <= 1; raw++ {
						for mac := 0; mac <= 1; mac++ {
							if mac == 1 && pk != 1 {
								continue
							}
							if raw == 1 && fl == 0 {
								continue
							}
							idx++
							if !c.Mine("data-grid", idx) {
								continue
							}
							r := c.RNG("data-grid", idx)
							o := dataGenOpts{mtype: mt, foptsLen: fl, portKind: pk, frmLen: ln, macInFRM: mac, rawFOpts: raw, maxFRM: 242}
							if ln > 242-fl {
								continue
							}
							d := genDataCase(r, o)
							var mic [4]byte
							r.Fill(mic[:])
							checkDataRoundTrip(c, d, mic)
							c.Count("grid.cells", 1)
						}
					}
				}
			}
		}
	}
	c.Exhaustive("data-grid")

	// 3. fixed-layout frames
	m := c.N(30000, 6000000)
	for i := int64(0); i < m; i++ {
		if !c.Mine("join", i) {
			continue
		}
		r := c.RNG("join", i)
		var mic lorawan.MIC
		r.Fill(mic[:])
		major := lorawan.Major(0)
		if r.Chance(1, 8) {
			major = lorawan.Major(mj(byte(r.Intn(4))))
		}
		switch i % 5 {
		case 0:
			simpleRoundTrip(c, "joinrequest", lorawan.PHYPayload{MHDR: lorawan.MHDR{MType: lorawan.JoinRequest, Major: major}, MIC: mic,
				MACPayload: &lorawan.JoinRequestPayload{JoinEUI: eui(r), DevEUI: eui(r), DevNonce: lorawan.DevNonce(r.U32Edge())}})
		case 1:
			var nid lorawan.NetID
			r.Fill(nid[:])
			simpleRoundTrip(c, "rejoin02", lorawan.PHYPayload{MHDR: lorawan.MHDR{MType: lorawan.RejoinRequest, Major: major}, MIC: mic,
				MACPayload: &lorawan.RejoinRequestType02Payload{RejoinType: lorawan.JoinType(2 * r.Intn(2)), NetID: nid, DevEUI: eui(r), RJCount0: uint16(r.U32Edge())}})
		case 2:
			simpleRoundTrip(c, "rejoin1", lorawan.PHYPayload{MHDR: lorawan.MHDR{MType: lorawan.RejoinRequest, Major: major}, MIC: mic,
				MACPayload: &lorawan.RejoinRequestType1Payload{RejoinType: 1, JoinEUI: eui(r), DevEUI: eui(r), RJCount1: uint16(r.U32Edge())}})
		case 3:
			simpleRoundTrip(c, "proprietary", lorawan.PHYPayload{MHDR: lorawan.MHDR{MType: lorawan.Proprietary, Major: major}, MIC: mic,
				MACPayload: &lorawan.DataPayload{Bytes: r.Bytes(r.Intn(251))}})
			if r.Chance(1, 3) {
				// frames whose base64 text happens to look like something else: only hex digits, only decimal
				// digits, only letters (built backwards from the text; proprietary frames start with '4'..'7')
				alpha := []string{"0123456789abcdefABCDEF", "0123456789", "abcdefABCDEF", "0123456789abcdef"}[r.Intn(4)]
				txt := []byte{"4567"[r.Intn(4)]}
				if alpha == "abcdefABCDEF" {
					txt[0] = '4'
				}
				for n := 4 * (2 + r.Intn(12)); len(txt) < n; {
					txt = append(txt, alpha[r.Intn(len(alpha))])
				}
				if raw, err := base64.StdEncoding.DecodeString(string(txt)); err == nil && len(raw) >= 5 && raw[0]>>5 == 7 && raw[0]&0x1c == 0 {
					var m4 [4]byte
					copy(m4[:], raw[len(raw)-4:])
					simpleRoundTrip(c, "proprietary-lookalike-text", lorawan.PHYPayload{MHDR: lorawan.MHDR{MType: lorawan.Proprietary, Major: lorawan.Major(mj(raw[0] & 3))}, MIC: lorawan.MIC(m4),
						MACPayload: &lorawan.DataPayload{Bytes: append([]byte{}, raw[1:len(raw)-4]...)}})
				}
			}
		case 4:
			joinAcceptRoundTrip(c, r)
		}
	}
}
