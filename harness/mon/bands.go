package mon

import (
	"fmt"
	"hash/fnv"

	"github.com/brocaar/lorawan"
	"github.com/brocaar/lorawan/band"

	"lwverif/core"
	"lwverif/spec"
)

type bandCfg struct {
	Name     string
	Repeater bool
	Dwell    bool
}

func (b bandCfg) String() string {
	return fmt.Sprintf("%s/rep=%v/dwell=%v", b.Name, b.Repeater, b.Dwell)
}

func (b bandCfg) New() (band.Band, error) {
	dt := lorawan.DwellTimeNoLimit
	if b.Dwell {
		dt = lorawan.DwellTime400ms
	}
	return band.GetConfig(band.Name(b.Name), b.Repeater, dt)
}

func allBandCfgs() []bandCfg {
	var out []bandCfg
	for _, n := range spec.RegionNames {
		for _, rep := range []bool{false, true} {
			for _, dw := range []bool{false, true} {
				out = append(out, bandCfg{n, rep, dw})
			}
		}
	}
	return out
}

// deprecated aliases of the band names (must behave like the common names)
var bandAliases = map[string]string{
	"AS_923": "AS923", "AU_915_928": "AU915", "CN_470_510": "CN470", "CN_779_787": "CN779", "EU_433": "EU433",
	"EU_863_870": "EU868", "IN_865_867": "IN865", "KR_920_923": "KR920", "US_902_928": "US915", "RU_864_870": "RU864",
}

func inInts(xs []int, v int) bool {
	for _, x := range xs {
		if x == v {
			return true
		}
	}
	return false
}

// bandFingerprints creates every band configuration once, in an order that differs from worker to
// worker (rotated by the batch number, reversed for odd batches), and reports a fingerprint of
// each fresh instance's tables as an "agree." counter: the parent compares them across the worker
// processes, so a table that depends on which configuration a process asked for first (a
// sync.Once capturing the first caller's arguments, a shared map patched by one constructor)
// shows up as a disagreement even though every single process is consistent with itself.
func bandFingerprints(c *core.Ctx, tag string) {
	cfgs := allBandCfgs()
	n := len(cfgs)
	for k := 0; k < n; k++ {
		i := (k + c.Batch*5) % n
		if c.Batch%2 == 1 {
			i = (n - 1 - k + c.Batch*5) % n
		}
		cfg := cfgs[i]
		b, err := cfg.New()
		if err != nil {
			continue
		}
		s, ok := band.VerifSnapshotOf(b)
		if !ok {
			continue
		}
		h := fnv.New64a()
		h.Write([]byte(core.Dump(s)))
		for dr := 0; dr <= 15; dr++ {
			if sz, err := b.GetMaxPayloadSizeForDataRateIndex("", "", dr); err == nil {
				fmt.Fprintf(h, "%d:%d/%d;", dr, sz.M, sz.N)
			}
			for off := 0; off <= 7; off++ {
				if v, err := b.GetRX1DataRateIndex(dr, off); err == nil {
					fmt.Fprintf(h, "%d,%d>%d;", dr, off, v)
				}
			}
		}
		c.Res().Counters["agree."+tag+"."+cfg.String()] = int64(h.Sum64() >> 1)
		c.Eval(1)
	}
}
