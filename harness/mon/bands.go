package mon

import (
	"fmt"

	"github.com/brocaar/lorawan"
	"github.com/brocaar/lorawan/band"

	"lwverif/spec"
)

type bandCfg struct {
	Name     string
	Repeater bool
	Dwell    bool
}

func (b bandCfg) String() string {
	return fmt.Sprintf("%s/rep=%v/dwell=%v", b.Name, b.Repeater, b.Dwell)
}

func (b bandCfg) New() (band.Band, error) {
	dt := lorawan.DwellTimeNoLimit
	if b.Dwell {
		dt = lorawan.DwellTime400ms
	}
	return band.GetConfig(band.Name(b.Name), b.Repeater, dt)
}

func allBandCfgs() []bandCfg {
	var out []bandCfg
	for _, n := range spec.RegionNames {
		for _, rep := range []bool{false, true} {
			for _, dw := range []bool{false, true} {
				out = append(out, bandCfg{n, rep, dw})
			}
		}
	}
	return out
}

// deprecated aliases of the band names (must behave like the common names)
var bandAliases = map[string]string{
	"AS_923": "AS923", "AU_915_928": "AU915", "CN_470_510": "CN470", "CN_779_787": "CN779", "EU_433": "EU433",
	"EU_863_870": "EU868", "IN_865_867": "IN865", "KR_920_923": "KR920", "US_902_928": "US915", "RU_864_870": "RU864",
}

func inInts(xs []int, v int) bool {
	for _, x := range xs {
		if x == v {
			return true
		}
	}
	return false
}
