package mon

import (
	"bytes"
	"fmt"
	"reflect"

	"github.com/brocaar/lorawan"

	"lwverif/core"
	"lwverif/spec"
)

func init() {
	core.Register(&core.Property{
		ID:   "C07",
		Rule: "O1 value domain: for each of the 29 payload types, field tuples over the full Go type domain of every leaf (all uint8 / int8 values, both bools, boundary + seeded random uint32 frequencies and durations incl. negative ones): exhaustive product when it has <= 70k tuples, otherwise every value of every field against seeded in-range values of the others plus random mixed tuples; MarshalBinary must either fail or produce bytes the library decodes back to the same tuple at wire resolution, must accept every tuple inside the spec range and refuse every tuple the wire format cannot represent. O2 streams: seeded command sequences per direction filling FOpts (<= 15 bytes) and port-0 payloads (<= 242 bytes) incl. every CID 0..255 as a stream member; decoding the spec-built byte string must return exactly the sequence; registered sizes (hook snapshot) equal spec and encoded lengths; over-long FOpts (16..300 bytes) and MAC commands with FPort != 0 must be refused. O3 histories: seeded histories of RegisterProprietaryMACCommand(dir, cid 0..255, size -3..6) interleaved with stream decodes in both directions, each decode predicted by a sequential registry model; no decode may panic. Distinct = (payload, field, value class, verdict) / (direction, stream length class) / (history op kinds).",
		Assumptions: []string{
			"field ranges from harness/spec/wire.go; values of the int-typed DwellTime enum other than its two constants are not generated",
			"wire resolution: frequency exact; DeviceTimeAns either neighbouring 1/256 s step; NewChannelReq 100 Hz below 1.2 GHz and 200 Hz from 2.4 GHz",
		},
		MinEvals: 1000,
		Run:      runC07,
		RunRace:  nil,
	})
}

var freqCands = []int64{0, 100, 99, 101, 50, 200, 868100000, 868100050, 868100001, 1677721500, 1677721600, 1677721400, 1199999900, 1200000000, 1200000100, 1300000000, 1680000000, 2399999900, 2400000000, 2400000100, 2400000200, 2400000300, 2403000000, 2479000000, 3355443000, 3355443200, 3355443100, 3355442800, 4294967295, 4294967200, 4294967000, 4000000000}
var durCands = []int64{0, 1, 3906249, 3906250, 3906251, 999999999, 1000000000, 4294967295 * 1000000000, 4294967295*1000000000 + 999999999, 4294967296 * 1000000000, 4294967296*1000000000 + 1, -1, -1000000000, -3906250, 1<<63 - 1, -1 << 63, 1400000000 * 1000000000, 1400000000*1000000000 + 500000000}

// leafDomain lists candidate values for one leaf: the whole domain for small kinds.
func leafDomain(r *core.RNG, f spec.Field, k reflect.Kind) []int64 {
	switch k {
	case reflect.Bool:
		return []int64{0, 1}
	case reflect.Uint8:
		out := make([]int64, 256)
		for i := range out {
			out[i] = int64(i)
		}
		return out
	case reflect.Int8:
		out := make([]int64, 256)
		for i := range out {
			out[i] = int64(i - 128)
		}
		return out
	case reflect.Int: // DwellTime enum
		return []int64{0, 1}
	case reflect.Uint32:
		out := append([]int64{}, freqCands...)
		for i := 0; i < 40; i++ {
			switch i % 4 {
			case 0:
				out = append(out, int64(r.U32()))
			case 1:
				out = append(out, int64(r.Intn(1<<24))*100)
			case 2:
				out = append(out, 2400000000+int64(r.Intn(4777216))*200)
			default:
				out = append(out, int64(r.Intn(42949672))*100)
			}
		}
		return out
	case reflect.Int64:
		out := append([]int64{}, durCands...)
		for i := 0; i < 30; i++ {
			out = append(out, int64(r.U64()>>uint(r.Intn(40))))
		}
		return out
	}
	panic("harness: unhandled leaf kind " + k.String())
}

func valueClass(f spec.Field, v int64) string {
	if _, ok := f.ToWire(v); !ok {
		return "unrepresentable"
	}
	if f.Sure(v) {
		return "in-range"
	}
	return "unpinned"
}

func c07Tuple(c *core.Ctx, l *spec.Layout, vals []int64, focus int) {
	pl := macCtor[l.Uplink][l.CID]()
	if err := core.Fill(pl, vals); err != nil {
		panic(fmt.Sprintf("harness: %s: %v", l.Name, err))
	}
	representable, sure := true, true
	bad := -1
	for i, f := range l.Fields {
		if _, ok := f.ToWire(vals[i]); !ok {
			representable = false
			if bad < 0 {
				bad = i
			}
		}
		if !f.Sure(vals[i]) {
			sure = false
		}
	}
	var b []byte
	var err error
	c.Eval(1)
	if p, msg := core.Guard(func() { b, err = pl.MarshalBinary() }); p {
		c.Violate("C07|value|"+l.Name+"|marshal-panic", "%s: %s", core.Dump(pl), msg)
		return
	}
	fname := "-"
	if focus >= 0 {
		fname = l.Fields[focus].Name
		c.Shape("value", l.Name, fname, valueClass(l.Fields[focus], vals[focus]), err == nil)
	}
	if err != nil {
		if sure {
			c.Violate("C07|value|"+l.Name+"|in-range-refused", "value inside the spec range refused: %v | %s", err, core.Dump(pl))
		}
		return
	}
	if len(b) != l.Size {
		c.Violate("C07|value|"+l.Name+"|encoded-length", "%d bytes, the specification says %d | %s", len(b), l.Size, core.Dump(pl))
		return
	}
	// the bytes handed out are the caller's (it appends a MIC, patches a byte, re-uses the buffer): doing so
	// must not reach what a later encode - of this or of any other value - returns
	{
		keep := append([]byte{}, b...)
		b2, _ := pl.MarshalBinary()
		for i := range b2 {
			b2[i] ^= 0xff
		}
		_ = append(b2, 0xEE, 0xEE, 0xEE, 0xEE)
		if b3, e3 := pl.MarshalBinary(); e3 != nil || !bytes.Equal(b3, keep) || !bytes.Equal(b, keep) {
			c.Violate("C07|value|"+l.Name+"|output-shared", "encoding %s gives %x; after the caller overwrote the bytes returned by another encode of it, the first result reads %x and a new encode gives %x (%v)", core.Dump(pl), keep, b, b3, e3)
			return
		}
	}
	// accepted: must be lossless
	back := macCtor[l.Uplink][l.CID]()
	c.Eval(1)
	if p, msg := core.Guard(func() { err = back.UnmarshalBinary(b) }); p || err != nil {
		c.Violate("C07|value|"+l.Name+"|own-encoding-refused", "%x: %v %s", b, err, msg)
		return
	}
	got, _ := core.Flatten(back)
	for i, f := range l.Fields {
		okv := got[i] == vals[i]
		if _, ok := f.ToWire(vals[i]); ok {
			okv = f.Lossless(vals[i], got[i])
		}
		if !okv {
			cls := "lossy"
			if !representable && i == bad {
				cls = "out-of-range-accepted"
			}
			c.Violate(fmt.Sprintf("C07|value|%s|%s|%s", l.Name, cls, f.Name), "%s = %d encodes without error to %x and decodes as %d (whole value: %s)", f.Name, vals[i], b, got[i], core.Dump(pl))
			return
		}
	}
}

func c07Values(c *core.Ctx) {
	for _, l := range spec.MACLayouts {
		mon := "value-" + l.Name
		kinds := core.LeafKinds(macCtor[l.Uplink][l.CID]())
		if len(kinds) != len(l.Fields) {
			panic("harness: table/struct mismatch " + l.Name)
		}
		r0 := c.RNG(mon, -1)
		doms := make([][]int64, len(kinds))
		prod := int64(1)
		for i := range kinds {
			doms[i] = leafDomain(r0, l.Fields[i], kinds[i])
			if prod < 1<<40 {
				prod *= int64(len(doms[i]))
			}
		}
		if prod <= 70000 {
			const chunk = 2048
			for base := int64(0); base < prod; base += chunk {
				if !c.Mine(mon, base/chunk) {
					continue
				}
				for t := base; t < base+chunk && t < prod; t++ {
					vals := make([]int64, len(kinds))
					x := t
					for i := range kinds {
						vals[i] = doms[i][x%int64(len(doms[i]))]
						x /= int64(len(doms[i]))
					}
					c07Tuple(c, l, vals, int(t%int64(len(kinds))))
				}
			}
			if c.Batch == 0 && !c.Replay {
				c.Exhaustive(fmt.Sprintf("%s: full product of leaf domains (%d tuples)", l.Name, prod))
			}
			continue
		}
		// one field over its whole domain, the others in range
		idx := int64(0)
		for j := range kinds {
			for _, v := range doms[j] {
				idx++
				if !c.Mine(mon, idx) {
					continue
				}
				r := c.RNG(mon, idx)
				for rep := 0; rep < 3; rep++ {
					vals := make([]int64, len(kinds))
					for i, f := range l.Fields {
						vals[i] = sureValue(r, f)
					}
					vals[j] = v
					c07Tuple(c, l, vals, j)
				}
			}
		}
		// random mixed tuples
		n := c.N(4000, 4000000)
		for k := int64(0); k < n/100; k++ {
			idx++
			if !c.Mine(mon, idx) {
				continue
			}
			r := c.RNG(mon, idx)
			for q := 0; q < 100; q++ {
				vals := make([]int64, len(kinds))
				focus := r.Intn(len(kinds))
				for i, f := range l.Fields {
					if i == focus || r.Chance(1, 4) {
						vals[i] = doms[i][r.Intn(len(doms[i]))]
					} else {
						vals[i] = sureValue(r, f)
					}
				}
				c07Tuple(c, l, vals, focus)
			}
		}
	}
}

// frameOf builds a data frame whose FOpts or FRMPayload hold raw bytes.
func frameOf(up bool, fopts []byte, port int, frm []byte) lorawan.PHYPayload {
	mt := lorawan.UnconfirmedDataDown
	if up {
		mt = lorawan.UnconfirmedDataUp
	}
	mp := &lorawan.MACPayload{}
	if fopts != nil {
		mp.FHDR.FOpts = []lorawan.Payload{&lorawan.DataPayload{Bytes: append([]byte{}, fopts...)}}
	}
	if port >= 0 {
		p := uint8(port)
		mp.FPort = &p
	}
	if frm != nil {
		mp.FRMPayload = []lorawan.Payload{&lorawan.DataPayload{Bytes: append([]byte{}, frm...)}}
	}
	return lorawan.PHYPayload{MHDR: lorawan.MHDR{MType: mt}, MACPayload: mp}
}

// commandBytes re-marshals decoded commands one by one.
func commandBytes(ps []lorawan.Payload) ([][]byte, error) {
	var out [][]byte
	for _, p := range ps {
		mc, ok := p.(*lorawan.MACCommand)
		if !ok {
			return nil, fmt.Errorf("%T in decoded command list", p)
		}
		b, err := mc.MarshalBinary()
		if err != nil {
			return nil, err
		}
		out = append(out, b)
	}
	return out, nil
}

func c07Streams(c *core.Ctx) {
	lorawan.VerifResetProprietary()
	// registered sizes against the spec and the encoded length of a zero value
	if c.Whole("sizes") {
		snap := lorawan.VerifRegistrySnapshot()
		for _, up := range []bool{true, false} {
			for cid := 0; cid < 256; cid++ {
				size, ok := snap[up][lorawan.CID(cid)]
				want := spec.MACSize(up, byte(cid))
				c.Eval(1)
				if (ok && size != want) || (!ok && want != 0) {
					c.Violate(fmt.Sprintf("C07|registered-size|up=%v|cid=%#x", up, cid), "registered size %d (present=%v), encoded length per specification %d", size, ok, want)
				}
				if ctor := macCtor[up][byte(cid)]; ctor != nil {
					if b, err := ctor().MarshalBinary(); err != nil || len(b) != want {
						c.Violate(fmt.Sprintf("C07|encoded-length|up=%v|cid=%#x", up, cid), "zero value encodes to %d bytes (%v), registered/spec size %d", len(b), err, want)
					}
				}
			}
		}
		c.Exhaustive("registered sizes: 2 x 256 (direction, CID)")
	}

	n := c.N(20000, 10000000)
	for i := int64(0); i < n; i++ {
		if !c.Mine("streams", i) {
			continue
		}
		r := c.RNG("streams", i)
		up := r.Bool()
		inFOpts := i%2 == 0
		max := 242
		if inFOpts {
			max = 15
		}
		ln := lenClass(r, max)
		if inFOpts {
			ln = int(i/2) % 16
		}
		cmds, bs := genMACStream(r, up, ln, inFOpts)
		// every CID gets a turn as a stream member
		if i%7 == 3 && len(bs) < max {
			cid := byte(i / 7)
			sz := spec.MACSize(up, cid)
			if len(bs)+1+sz <= max {
				var c2 *lorawan.MACCommand
				var b2 []byte
				if l := spec.MACLayout(up, cid); l != nil {
					vals := make([]int64, len(l.Fields))
					for k, f := range l.Fields {
						vals[k] = f.WireResolution(sureValue(r, f))
					}
					pl := macCtor[up][cid]()
					core.Fill(pl, vals)
					eb, _ := l.Encode(vals)
					c2, b2 = &lorawan.MACCommand{CID: lorawan.CID(cid), Payload: pl}, append([]byte{cid}, eb...)
				} else if sz > 0 {
					// a standard-range command the library registers and the table does not describe: sz opaque
					// bytes, compared by framing only (what the library makes of them is its own)
					pb := r.Bytes(sz)
					if pl, _, e := lorawan.GetMACPayloadAndSize(up, lorawan.CID(cid)); e == nil && pl != nil && pl.UnmarshalBinary(pb) == nil {
						if nb, e2 := pl.MarshalBinary(); e2 == nil && len(nb) == sz {
							pb = nb
						}
						c2, b2 = &lorawan.MACCommand{CID: lorawan.CID(cid), Payload: pl}, append([]byte{cid}, pb...)
					} else {
						continue
					}
				} else {
					c2, b2 = &lorawan.MACCommand{CID: lorawan.CID(cid)}, []byte{cid}
				}
				pos := r.Intn(len(cmds) + 1)
				// insert at a command boundary
				off := 0
				for k := 0; k < pos; k++ {
					mb, _ := cmds[k].MarshalBinary()
					off += len(mb)
				}
				cmds = append(cmds[:pos], append([]lorawan.Payload{c2}, cmds[pos:]...)...)
				bs = append(bs[:off], append(append([]byte{}, b2...), bs[off:]...)...)
			}
		}
		if len(bs) == 0 {
			continue
		}
		var phy lorawan.PHYPayload
		var err error
		where := "frm"
		if inFOpts {
			phy = frameOf(up, bs, -1, nil)
			where = "fopts"
		} else {
			phy = frameOf(up, nil, 0, bs)
		}
		c.Eval(1)
		p, msg := core.Guard(func() {
			if inFOpts {
				err = phy.DecodeFOptsToMACCommands()
			} else {
				err = phy.DecodeFRMPayloadToMACCommands()
			}
		})
		if p || err != nil {
			c.Violate("C07|stream|"+where+"|decode-failed", "up=%v stream %x: %v %s", up, bs, err, msg)
			continue
		}
		mp := phy.MACPayload.(*lorawan.MACPayload)
		got := mp.FRMPayload
		if inFOpts {
			got = mp.FHDR.FOpts
		}
		if g, w := core.Dump(got), core.Dump(cmds); g != w {
			c.Violate(fmt.Sprintf("C07|stream|%s|sequence-differs|up=%v", where, up), "stream %x decodes to\n  %s\nwant\n  %s", bs, short(g, 700), short(w, 700))
			continue
		}
		// and the library encodes the sequence to the same bytes
		enc := lorawan.PHYPayload{MHDR: phy.MHDR, MACPayload: &lorawan.MACPayload{}}
		emp := enc.MACPayload.(*lorawan.MACPayload)
		if inFOpts {
			emp.FHDR.FOpts = clonePayloads(cmds)
		} else {
			z := uint8(0)
			emp.FPort = &z
			emp.FRMPayload = clonePayloads(cmds)
		}
		eb, err := enc.MarshalBinary()
		c.Eval(1)
		if err != nil {
			c.Violate("C07|stream|"+where+"|encode-refused", "%v for %s", err, short(core.Dump(cmds), 400))
		} else {
			body := eb[1+7 : len(eb)-4]
			if !inFOpts {
				body = eb[1+7+1 : len(eb)-4]
			}
			if !bytes.Equal(body, bs) {
				c.Violate("C07|stream|"+where+"|encode-bytes", "library %x spec %x", body, bs)
			}
		}
		c.Shape("stream", where, up, lenClassName(len(bs)), len(cmds) > 3)
		if c.WantSample("streams") {
			c.Sample("streams", map[string]interface{}{"uplink": up, "where": where, "bytes": core.Hex(bs), "commands": len(cmds)})
		}
	}

	// refusals
	if c.Whole("refusals") {
		r := c.RNG("refusals", 0)
		for ln := 16; ln <= 300; ln++ {
			for _, raw := range []bool{true, false} {
				up := ln%2 == 0
				var phy lorawan.PHYPayload
				if raw {
					phy = frameOf(up, r.Bytes(ln), -1, nil)
				} else {
					cmds, _ := genMACStream(r, up, ln, true)
					phy = frameOf(up, nil, -1, nil)
					phy.MACPayload.(*lorawan.MACPayload).FHDR.FOpts = cmds
				}
				var b []byte
				var err error
				c.Eval(1)
				if p, msg := core.Guard(func() { b, err = phy.MarshalBinary() }); p {
					c.Violate("C07|fopts-overlong|panic", "%d bytes: %s", ln, msg)
				} else if err == nil {
					cls := "16-255"
					if ln >= 256 {
						cls = ">=256"
					}
					c.Violate("C07|fopts-overlong|accepted|len="+cls, "FOpts of %d bytes accepted; frame %x…", ln, b[:12])
				}
				// every path that serialises the frame must refuse it too
				k := lorawan.AES128Key{1}
				paths := map[string]func() error{
					"MarshalText":        func() error { _, e := phy.MarshalText(); return e },
					"SetUplinkDataMIC":   func() error { return phy.SetUplinkDataMIC(lorawan.LoRaWAN1_0, 0, 0, 0, k, k) },
					"SetDownlinkDataMIC": func() error { return phy.SetDownlinkDataMIC(lorawan.LoRaWAN1_1, 0, k) },
					"ValidateUplinkDataMIC": func() error { // "false" is as much a refusal as an error is
						okv, e := phy.ValidateUplinkDataMIC(lorawan.LoRaWAN1_1, 0, 0, 0, k, k)
						if e == nil && !okv {
							return fmt.Errorf("not valid")
						}
						return e
					},
					"EncryptFOpts": func() error { return phy.EncryptFOpts(k) },
				}
				for _, name := range []string{"MarshalText", "SetUplinkDataMIC", "SetDownlinkDataMIC", "ValidateUplinkDataMIC", "EncryptFOpts"} {
					var e error
					c.Eval(1)
					if p, msg := core.Guard(func() { e = paths[name]() }); p {
						c.Violate("C07|fopts-overlong|panic|"+name, "%d bytes: %s", ln, short(msg, 200))
					} else if e == nil {
						c.Violate("C07|fopts-overlong|accepted|"+name, "FOpts of %d bytes accepted by %s", ln, name)
					}
				}
				c.Shape("refusal-fopts", ln, raw)
			}
		}
		// an out-of-range command anywhere in a list (first, middle, last) makes every serialising path fail:
		// "reported, never silently dropped or truncated into a different sequence"
		for pos := 0; pos < 3; pos++ {
			for _, where := range []string{"FOpts", "FRMPayload"} {
				bad := &lorawan.MACCommand{CID: lorawan.LinkADRReq, Payload: &lorawan.LinkADRReqPayload{DataRate: 16 + uint8(r.Intn(200))}}
				ok1 := &lorawan.MACCommand{CID: lorawan.DevStatusReq}
				ok2 := &lorawan.MACCommand{CID: lorawan.DutyCycleReq, Payload: &lorawan.DutyCycleReqPayload{MaxDCycle: uint8(r.Intn(16))}}
				list := []lorawan.Payload{ok1, ok2}
				list = append(list[:pos], append([]lorawan.Payload{bad}, list[pos:]...)...)
				var phy lorawan.PHYPayload
				if where == "FOpts" {
					phy = frameOf(false, nil, -1, nil)
					phy.MACPayload.(*lorawan.MACPayload).FHDR.FOpts = list
				} else {
					phy = frameOf(false, nil, 0, nil)
					phy.MACPayload.(*lorawan.MACPayload).FRMPayload = list
				}
				k := lorawan.AES128Key{7}
				paths := map[string]func() error{
					"MarshalBinary":      func() error { _, e := phy.MarshalBinary(); return e },
					"SetDownlinkDataMIC": func() error { return phy.SetDownlinkDataMIC(lorawan.LoRaWAN1_1, 0, k) },
					"EncryptFOpts":       func() error { return phy.EncryptFOpts(k) },
					"EncryptFRMPayload":  func() error { return phy.EncryptFRMPayload(k) },
				}
				for _, name := range []string{"MarshalBinary", "SetDownlinkDataMIC", "EncryptFOpts", "EncryptFRMPayload"} {
					if (name == "EncryptFOpts") != (where == "FOpts") && name != "MarshalBinary" && name != "SetDownlinkDataMIC" {
						continue
					}
					var e error
					c.Eval(1)
					if p, _ := core.Guard(func() { e = paths[name]() }); !p && e == nil {
						c.Violate(fmt.Sprintf("C07|invalid-command-in-list|accepted|%s|%s|pos=%d", where, name, pos), "%s holding [.. LinkADRReq{DataRate %d} ..] at position %d of 3: %s reports success", where, bad.Payload.(*lorawan.LinkADRReqPayload).DataRate, pos, name)
					}
				}
				c.Shape("invalid-in-list", where, pos)
			}
		}
		for _, port := range []int{-1, 1, 2, 100, 224, 255} {
			cmds, _ := genMACStream(r, true, 6, true)
			phy := frameOf(true, nil, port, nil)
			phy.MACPayload.(*lorawan.MACPayload).FRMPayload = cmds
			c.Eval(1)
			// MAC commands under an application port are outside the property (the library refuses them)
			if p, msg := core.Guard(func() { _, _ = phy.MarshalBinary() }); p {
				c.Violate("C07|mac-in-frmpayload-nonzero-port|panic", "MAC commands in FRMPayload with FPort %d: %s", port, msg)
			}
			c.Shape("refusal-port", port)
		}
	}
}

// ---- O3: registration histories against a sequential model

type regModel map[bool]map[byte]int

func (m regModel) size(up bool, cid byte) int {
	if s, ok := m[up][cid]; ok {
		return s
	}
	return spec.MACSize(up, cid)
}

// predictFraming splits a byte string the way a decoder using the model must.
func predictFraming(m regModel, up bool, b []byte) ([][]byte, bool) {
	var out [][]byte
	for i := 0; i < len(b); {
		s := m.size(up, b[i])
		if len(b)-i < s+1 {
			return nil, false
		}
		out = append(out, b[i:i+1+s])
		i += 1 + s
	}
	return out, true
}

func c07Histories(c *core.Ctx) {
	n := c.N(2500, 2000000)
	for h := int64(0); h < n; h++ {
		if !c.Mine("history", h) {
			continue
		}
		r := c.RNG("history", h)
		lorawan.VerifResetProprietary()
		model := regModel{true: {}, false: {}}
		steps := 4 + r.Intn(14)
		manyKeys := h%9 == 4
		if manyKeys {
			steps = 150 + r.Intn(250) // a registry that fills up: most of the 2 x 128 proprietary CIDs get (re-)registered
		}
		var trace []string
		// bursts: exactly 256 (or 512, 65536) successful re-registrations that leave the number of entries
		// unchanged between two decodes - whatever the library derives from the registry (a size table with
		// a small version counter) must notice every one of them
		burst := h%23 == 11
		if burst {
			steps = 12
		}
		for s := 0; s < steps; s++ {
			if burst && s%3 == 0 {
				n := 256
				switch s {
				case 6:
					n = 512
				case 9:
					n = 65536
				}
				size := 1 + (s/3)%4
				for k := 0; k < n; k++ {
					up, cid := k%2 == 0, byte(0x80+(k/2)%128)
					if n == 65536 && k >= 256 {
						cid = byte(0x80 + (k/2)%6) // keep it to the hot keys: same count, new sizes over and over
						size = 1 + (k/12)%4
					}
					if err := lorawan.RegisterProprietaryMACCommand(up, lorawan.CID(cid), size); err != nil {
						c.Violate("C07|history|register-refused", "%v", err)
					}
					model[up][cid] = size
				}
				c.Eval(int64(n))
				trace = append(trace, fmt.Sprintf("burst of %d registrations", n))
				c.Shape("history-op", "burst", n)
				continue
			}
			if !burst && (r.Chance(1, 2) || (manyKeys && r.Chance(2, 3))) {
				up := r.Bool()
				cid := byte(r.Intn(256))
				if r.Chance(3, 4) && !manyKeys {
					cid = byte(0x80 + r.Intn(6)) // few keys: re-registrations and both directions collide
				}
				if manyKeys && len(trace) > 40 {
					trace = trace[len(trace)-40:]
				}
				size := r.Range(-3, 6)
				var err error
				c.Eval(1)
				if p, msg := core.Guard(func() { err = lorawan.RegisterProprietaryMACCommand(up, lorawan.CID(cid), size) }); p {
					c.Violate("C07|history|register-panic", "%s", msg)
					break
				}
				trace = append(trace, fmt.Sprintf("register(up=%v,cid=%#x,size=%d)->%v", up, cid, size, err))
				switch {
				case cid < 0x80, size < 0:
					// a standard CID or a negative size is not "a proprietary CID registered with a size": the
					// library refuses both; either way the model is unchanged, and a call that took effect
					// nevertheless shows in the framing of the decodes that follow
				case size == 0:
					if err != nil {
						// refusing a size of 0 ("nothing to register") leaves everything as it was
					} else if prev, was := model[up][cid]; was {
						// an accepted size-0 registration of a CID that has a size already: the library leaves the
						// earlier size in place ("nothing to register"); replacing it by 0 bytes is the other
						// reading of "registered with a size is framed with that size". The property does not
						// choose, so the model follows what the registry reports - anything else is a violation.
						_, got, gerr := lorawan.GetMACPayloadAndSize(up, lorawan.CID(cid))
						switch {
						case gerr == nil && got == prev:
						case gerr != nil || got == 0:
							delete(model[up], cid)
							trace = append(trace, "(registry now reports no size for it)")
						default:
							c.Violate("C07|history|zero-size-registration", "after RegisterProprietaryMACCommand(%v, %#x, 0) on a CID registered with %d bytes the registry reports %d bytes | %v", up, cid, prev, got, trace)
						}
					}
				default:
					if err != nil {
						c.Violate("C07|history|register-refused", "%v | %v", err, trace)
					} else {
						model[up][cid] = size
					}
				}
				c.Shape("history-op", "register", cid >= 0x80, size > 0, size < 0)
				continue
			}
			// decode a stream that mixes standard and the hot proprietary CIDs, in one direction
			up := r.Bool()
			var bs []byte
			for len(bs) < 40 && (len(bs) == 0 || r.Chance(4, 5)) {
				if r.Bool() {
					cid := byte(0x80 + r.Intn(6))
					bs = append(bs, cid)
					bs = append(bs, r.Bytes(model.size(up, cid))...)
				} else {
					_, b := genMACCommand(r, up, 12)
					if b[0] >= 0x80 {
						continue
					}
					bs = append(bs, b...)
				}
			}
			if r.Chance(1, 6) && len(bs) > 1 {
				bs = bs[:len(bs)-1] // truncated: may or may not frame
			}
			want, ok := predictFraming(model, up, bs)
			phy := frameOf(up, nil, 0, bs)
			var err error
			c.Eval(1)
			if p, msg := core.Guard(func() { err = phy.DecodeFRMPayloadToMACCommands() }); p {
				c.Violate("C07|history|decode-panic", "stream %x up=%v after %v: %s", bs, up, trace, short(msg, 300))
				break
			}
			trace = append(trace, fmt.Sprintf("decode(up=%v,%x)->%v", up, bs, err))
			if ok != (err == nil) {
				c.Violate(fmt.Sprintf("C07|history|framing-verdict|model-ok=%v", ok), "stream %x up=%v: err=%v, model framing ok=%v | %v", bs, up, err, ok, trace)
				break
			}
			if err == nil {
				got, gerr := commandBytes(phy.MACPayload.(*lorawan.MACPayload).FRMPayload)
				same := gerr == nil && len(got) == len(want)
				if same {
					for k := range got {
						// compare framing: CID and length (payload values of standard commands may legitimately be normalised)
						if len(got[k]) != len(want[k]) || got[k][0] != want[k][0] || (want[k][0] >= 0x80 && !bytes.Equal(got[k], want[k])) {
							same = false
						}
					}
				}
				if !same {
					c.Violate("C07|history|framing-differs", "stream %x up=%v framed as %x (%v), model %x | %v", bs, up, got, gerr, want, trace)
					break
				}
			}
			c.Shape("history-op", "decode", up, ok)
		}
		if c.WantSample("history") {
			c.Sample("history", trace)
		}
	}
	lorawan.VerifResetProprietary()
}

func runC07(c *core.Ctx) {
	c07Values(c)
	c07Streams(c)
	c07Histories(c)
}
