package mon

import (
	"bytes"
	"fmt"
	"reflect"
	"runtime"
	"sync"

	"github.com/brocaar/lorawan"
	"github.com/brocaar/lorawan/applayer/clocksync"
	"github.com/brocaar/lorawan/applayer/firmwaremanagement"
	"github.com/brocaar/lorawan/applayer/fragmentation"
	"github.com/brocaar/lorawan/applayer/multicastsetup"

	"lwverif/core"
	"lwverif/spec"
)

func init() {
	core.Register(&core.Property{
		ID:   "C18",
		Rule: "for every command payload type of the four application-layer packages (enumerated through the packages' own CID registries, both directions): encode-first generator = field tuples inside the TS003-TS006 bit widths (every value of fields <= 8 bits wide in turn, boundary + seeded values for wider ones, the others seeded in range); decode-first generator = all 256 first bytes x seeded tails of length 0..32. Oracles: MarshalBinary under recover() never panics on a well-formed value, len(bytes) == Size(), decode(encode(v)) == v, decoding encode(v) followed by arbitrary trailing bytes gives v with the same Size(), every decoded value re-encodes and decodes to itself; seeded sequences of 1..6 (one in five: 7..66) commands per package and direction must survive Commands.MarshalBinary -> Commands.UnmarshalBinary (DataFragment only in last position). Multicast keys are compared with single-block AES derivations of TS005. Distinct = (package, payload type, field, value class) / (package, direction, sequence shape).",
		Assumptions: []string{
			"bit widths: TokenReq/TokenAns/Period 4, NbTransmissions 3, McGroupID 2, NbTotalGroups 3, class-C TimeOut 4, class-B TimeOut 4 and Periodicity 3, DLFrequency/TimeToStart/Countdown 24 (frequency in 100 Hz), FragIndex 2, BlockAckDelay/FragmentationMatrix 3, N and NbFragReceived 14, UpImageStatus 2, flags 1",
			"no byte-layout claim is made for these packages (the property makes none); DataFragment length is not self-describing on the wire and can only be last in a sequence",
		},
		MinEvals: 1000,
		Run:      runC18,
	})
}

// width of each leaf (in Flatten order) of the flat payload types; 0 = bool, -32 = signed 32 bit, 2400 = frequency (24 bit, x100 Hz)
var c18Widths = map[string][]int{
	"clocksync.PackageVersionAnsPayload":              {8, 8},
	"clocksync.AppTimeReqPayload":                     {32, 0, 4},
	"clocksync.AppTimeAnsPayload":                     {-32, 4},
	"clocksync.DeviceAppTimePeriodicityReqPayload":    {4},
	"clocksync.DeviceAppTimePeriodicityAnsPayload":    {0, 32},
	"clocksync.ForceDeviceResyncReqPayload":           {3},
	"multicastsetup.PackageVersionAnsPayload":         {8, 8},
	"multicastsetup.McGroupStatusReqPayload":          {0, 0, 0, 0},
	"multicastsetup.McGroupSetupReqPayload":           append(append([]int{2, 8, 8, 8, 8}, rep(8, 16)...), 32, 32),
	"multicastsetup.McGroupSetupAnsPayload":           {0, 2},
	"multicastsetup.McGroupDeleteReqPayload":          {2},
	"multicastsetup.McGroupDeleteAnsPayload":          {0, 2},
	"multicastsetup.McClassCSessionReqPayload":        {2, 32, 4, 2400, 8},
	"multicastsetup.McClassBSessionReqPayload":        {2, 32, 3, 4, 2400, 8},
	"fragmentation.PackageVersionAnsPayload":          {8, 8},
	"fragmentation.FragSessionSetupReqPayload":        {2, 0, 0, 0, 0, 16, 8, 3, 3, 8, 8, 8, 8, 8},
	"fragmentation.FragSessionSetupAnsPayload":        {2, 0, 0, 0, 0},
	"fragmentation.FragSessionDeleteReqPayload":       {2},
	"fragmentation.FragSessionDeleteAnsPayload":       {2, 0},
	"fragmentation.FragSessionStatusReqPayload":       {2, 0},
	"fragmentation.FragSessionStatusAnsPayload":       {2, 14, 8, 0},
	"firmwaremanagement.PackageVersionAnsPayload":     {8, 8},
	"firmwaremanagement.DevVersionReqPayload":         {},
	"firmwaremanagement.DevVersionAnsPayload":         {32, 32},
	"firmwaremanagement.DevRebootTimeReqPayload":      {32},
	"firmwaremanagement.DevRebootTimeAnsPayload":      {32},
	"firmwaremanagement.DevRebootCountdownReqPayload": {24},
	"firmwaremanagement.DevRebootCountdownAnsPayload": {24},
	"firmwaremanagement.DevUpgradeImageReqPayload":    {},
	"firmwaremanagement.DevDeleteImageReqPayload":     {32},
	"firmwaremanagement.DevDeleteImageAnsPayload":     {1, 1},
}

func rep(v, n int) []int {
	out := make([]int, n)
	for i := range out {
		out[i] = v
	}
	return out
}

// appPayload is the common face of the four packages' CommandPayload interfaces.
type appPayload interface {
	MarshalBinary() ([]byte, error)
	UnmarshalBinary([]byte) error
	Size() int
}

type appType struct {
	pkg  string
	up   bool
	cid  byte
	t    reflect.Type
	name string
}

func appTypes() []appType {
	var out []appType
	for _, up := range []bool{true, false} {
		for cid := 0; cid < 256; cid++ {
			if p, err := clocksync.GetCommandPayload(up, clocksync.CID(cid)); err == nil {
				t := reflect.TypeOf(p).Elem()
				out = append(out, appType{"clocksync", up, byte(cid), t, "clocksync." + t.Name()})
			}
			if p, err := multicastsetup.GetCommandPayload(up, multicastsetup.CID(cid)); err == nil {
				t := reflect.TypeOf(p).Elem()
				out = append(out, appType{"multicastsetup", up, byte(cid), t, "multicastsetup." + t.Name()})
			}
			if p, err := fragmentation.GetCommandPayload(up, fragmentation.CID(cid)); err == nil {
				t := reflect.TypeOf(p).Elem()
				out = append(out, appType{"fragmentation", up, byte(cid), t, "fragmentation." + t.Name()})
			}
			if p, err := firmwaremanagement.GetCommandPayload(up, firmwaremanagement.CID(cid)); err == nil {
				t := reflect.TypeOf(p).Elem()
				out = append(out, appType{"firmwaremanagement", up, byte(cid), t, "firmwaremanagement." + t.Name()})
			}
		}
	}
	return out
}

func (a appType) new() appPayload { return reflect.New(a.t).Interface().(appPayload) }

func leafRandom(r *core.RNG, w int) int64 {
	switch {
	case w == 0:
		return int64(r.Intn(2))
	case w == -32:
		return int64(int32(r.U32Edge()))
	case w == 2400:
		if r.Chance(1, 4) {
			return []int64{0, 100, 1677721500, 868100000}[r.Intn(4)]
		}
		return int64(r.Intn(1<<24)) * 100
	case w == 32:
		return int64(r.U32Edge())
	case w <= 8:
		return int64(r.Intn(1 << uint(w)))
	default:
		if r.Chance(1, 4) {
			return []int64{0, 1, 1<<uint(w) - 1, 1<<uint(w) - 2}[r.Intn(4)]
		}
		return int64(r.U64() % (1 << uint(w)))
	}
}

// genApp draws a well-formed in-range value of the type.
func genApp(r *core.RNG, a appType) appPayload {
	switch a.name {
	case "multicastsetup.McGroupStatusAnsPayload":
		p := &multicastsetup.McGroupStatusAnsPayload{}
		p.Status.NbTotalGroups = uint8(r.Intn(8))
		for i := range p.Status.AnsGroupMask {
			if r.Bool() {
				p.Status.AnsGroupMask[i] = true
				var da lorawan.DevAddr
				r.Fill(da[:])
				it := multicastsetup.McGroupStatusAnsPayloadItem{McGroupID: uint8(r.Intn(4)), McAddr: da}
				if len(p.Items) > 0 && r.Chance(1, 4) {
					it = p.Items[r.Intn(len(p.Items))] // the same group / address reported twice is still two entries on the wire
					if r.Bool() {
						it.McGroupID = uint8(r.Intn(4))
					}
				}
				p.Items = append(p.Items, it)
			}
		}
		return p
	case "multicastsetup.McClassCSessionAnsPayload":
		p := &multicastsetup.McClassCSessionAnsPayload{}
		p.StatusAndMcGroupID.McGroupID = uint8(r.Intn(4))
		if r.Bool() {
			p.StatusAndMcGroupID.DRError, p.StatusAndMcGroupID.FreqError, p.StatusAndMcGroupID.McGroupUndefined = r.Bool(), r.Bool(), r.Bool()
		}
		if !(p.StatusAndMcGroupID.DRError || p.StatusAndMcGroupID.FreqError || p.StatusAndMcGroupID.McGroupUndefined) {
			v := uint32(leafRandom(r, 24))
			p.TimeToStart = &v
		}
		return p
	case "multicastsetup.McClassBSessionAnsPayload":
		p := &multicastsetup.McClassBSessionAnsPayload{}
		p.StatusAndMcGroupID.McGroupID = uint8(r.Intn(4))
		if r.Bool() {
			p.StatusAndMcGroupID.DRError, p.StatusAndMcGroupID.FreqError, p.StatusAndMcGroupID.McGroupUndefined = r.Bool(), r.Bool(), r.Bool()
		}
		if !(p.StatusAndMcGroupID.DRError || p.StatusAndMcGroupID.FreqError || p.StatusAndMcGroupID.McGroupUndefined) {
			v := uint32(leafRandom(r, 24))
			p.TimeToStart = &v
		}
		return p
	case "fragmentation.DataFragmentPayload":
		p := &fragmentation.DataFragmentPayload{}
		p.IndexAndN.FragIndex = uint8(r.Intn(4))
		p.IndexAndN.N = uint16(leafRandom(r, 14))
		p.Payload = r.Bytes(r.Intn(40))
		return p
	case "firmwaremanagement.DevUpgradeImageAnsPayload":
		// the version field is unexported: values with a version only exist as decoder output
		p := &firmwaremanagement.DevUpgradeImageAnsPayload{}
		st := r.Intn(4)
		b := []byte{byte(st)}
		if st == 3 {
			b = append(b, r.Bytes(4)...)
		}
		if err := p.UnmarshalBinary(b); err != nil {
			return nil
		}
		return p
	}
	ws, ok := c18Widths[a.name]
	if !ok {
		return nil
	}
	p := a.new()
	vals := make([]int64, len(ws))
	for i, w := range ws {
		vals[i] = leafRandom(r, w)
	}
	if err := core.Fill(p, vals); err != nil {
		panic(fmt.Sprintf("harness: width table for %s does not match the struct: %v", a.name, err))
	}
	return p
}

// userCmdPayload is a caller-defined CommandPayload of a non-pointer type (the interfaces are exported;
// an application may carry its own vendor command). On the wire it is just its bytes.
type userCmdPayload struct{ B [3]byte }

func (p userCmdPayload) MarshalBinary() ([]byte, error)    { return append([]byte{}, p.B[:]...), nil }
func (p userCmdPayload) UnmarshalBinary(data []byte) error { return nil }
func (p userCmdPayload) Size() int                         { return len(p.B) }

// c18UserPayload: a Command holding a caller-defined payload encodes to CID | payload bytes and reports that size.
func c18UserPayload(c *core.Ctx, r *core.RNG) {
	pl := userCmdPayload{B: [3]byte{r.Byte(), r.Byte(), r.Byte()}}
	cid := byte(0x20 + r.Intn(0x40))
	want := append([]byte{cid}, pl.B[:]...)
	type cmd interface {
		MarshalBinary() ([]byte, error)
		Size() int
	}
	for name, cm := range map[string]cmd{
		"clocksync":          clocksync.Command{CID: clocksync.CID(cid), Payload: pl},
		"multicastsetup":     multicastsetup.Command{CID: multicastsetup.CID(cid), Payload: pl},
		"fragmentation":      fragmentation.Command{CID: fragmentation.CID(cid), Payload: pl},
		"firmwaremanagement": firmwaremanagement.Command{CID: firmwaremanagement.CID(cid), Payload: pl},
	} {
		var b []byte
		var err error
		var sz int
		c.Eval(2)
		if p, msg := core.Guard(func() { b, err = cm.MarshalBinary(); sz = cm.Size() }); p {
			c.Violate("C18|"+name+"|caller-defined-payload|panic", "a Command with a caller-defined (non-pointer) CommandPayload panics: %s", short(msg, 300))
		} else if err != nil || !bytes.Equal(b, want) || sz != len(want) {
			c.Violate("C18|"+name+"|caller-defined-payload", "Command{CID %#x, caller-defined payload %x} encodes to %x (err %v) with Size() %d, want %x / %d", cid, pl.B, b, err, sz, want, len(want))
		}
		c.Shape("caller-defined-payload", name)
	}
}

// c18Value applies the size / inverse / trailing-bytes oracles to one value.
func c18Value(c *core.Ctx, a appType, p appPayload, r *core.RNG, how string) {
	var b []byte
	var err error
	c.Eval(1)
	if pn, msg := core.Guard(func() { b, err = p.MarshalBinary() }); pn {
		c.Violate("C18|"+a.name+"|encode-panic", "MarshalBinary panics on %s: %s", core.Dump(p), short(msg, 300))
		return
	}
	if err != nil {
		if how == "encode-first" {
			c.Violate("C18|"+a.name+"|encode-refused", "well-formed value refused: %v | %s", err, core.Dump(p))
		}
		return
	}
	if len(b) != p.Size() {
		c.Violate("C18|"+a.name+"|size", "encodes to %d bytes but Size() = %d | %s", len(b), p.Size(), core.Dump(p))
		return
	}
	// the bytes handed out are the caller's: overwriting / appending to one result must not reach another
	{
		keep := append([]byte{}, b...)
		b2, _ := p.MarshalBinary()
		for i := range b2 {
			b2[i] ^= 0xff
		}
		_ = append(b2, 0xEE, 0xEE, 0xEE)
		if b3, e3 := p.MarshalBinary(); e3 != nil || !bytes.Equal(b3, keep) || !bytes.Equal(b, keep) {
			c.Violate("C18|"+a.name+"|output-shared", "encoding %s gives %x; after the caller overwrote the bytes of another encode of it the first result reads %x and a new encode gives %x (%v)", core.Dump(p), keep, b, b3, e3)
			return
		}
	}
	for _, tail := range [][]byte{nil, r.Bytes(1 + r.Intn(6)), {0xff, 0xff, 0xff, 0xff, 0xff, 0xff, 0xff, 0xff, 0xff}} {
		if a.name == "fragmentation.DataFragmentPayload" && tail != nil {
			continue // the fragment extends to the end of the message by definition
		}
		q := a.new()
		in := append(append([]byte{}, b...), tail...)
		c.Eval(1)
		if pn, msg := core.Guard(func() { err = q.UnmarshalBinary(in) }); pn {
			c.Violate("C18|"+a.name+"|decode-panic", "%x: %s", in, short(msg, 300))
			return
		}
		what := "roundtrip"
		if tail != nil {
			what = "followed-by-other-bytes"
		}
		if err != nil && tail != nil {
			// a payload decoder handed more than its own bytes may refuse them: the property speaks of command
			// sequences, and whether those decode is judged on sequences (the stream monitor), however the
			// library cuts them up internally
			c.Count("payload-decoders.refuse-trailing-bytes", 1)
			continue
		}
		if err != nil {
			c.Violate("C18|"+a.name+"|"+what+"|refused", "own encoding %x (+%d trailing bytes) refused: %v", b, len(tail), err)
			return
		}
		if g, w := core.Dump(q), core.Dump(p); g != w {
			c.Violate("C18|"+a.name+"|"+what+"|differs", "%s: decode(encode(v)%s) != v\n v   %s\n got %s\n bytes %x", how, map[bool]string{true: " + trailing bytes", false: ""}[tail != nil], w, g, b)
			return
		}
		if q.Size() != len(b) {
			c.Violate("C18|"+a.name+"|"+what+"|size", "decoded Size() %d != %d", q.Size(), len(b))
			return
		}
	}
}

// package-level command wrappers
type appCmd struct {
	cid     byte
	payload appPayload
}

func cmdsMarshal(pkg string, cmds []appCmd) ([]byte, error) {
	switch pkg {
	case "clocksync":
		var cs clocksync.Commands
		for _, x := range cmds {
			cm := clocksync.Command{CID: clocksync.CID(x.cid)}
			if x.payload != nil {
				cm.Payload = x.payload.(clocksync.CommandPayload)
			}
			cs = append(cs, cm)
		}
		return cs.MarshalBinary()
	case "multicastsetup":
		var cs multicastsetup.Commands
		for _, x := range cmds {
			cm := multicastsetup.Command{CID: multicastsetup.CID(x.cid)}
			if x.payload != nil {
				cm.Payload = x.payload.(multicastsetup.CommandPayload)
			}
			cs = append(cs, cm)
		}
		return cs.MarshalBinary()
	case "fragmentation":
		var cs fragmentation.Commands
		for _, x := range cmds {
			cm := fragmentation.Command{CID: fragmentation.CID(x.cid)}
			if x.payload != nil {
				cm.Payload = x.payload.(fragmentation.CommandPayload)
			}
			cs = append(cs, cm)
		}
		return cs.MarshalBinary()
	default:
		var cs firmwaremanagement.Commands
		for _, x := range cmds {
			cm := firmwaremanagement.Command{CID: firmwaremanagement.CID(x.cid)}
			if x.payload != nil {
				cm.Payload = x.payload.(firmwaremanagement.CommandPayload)
			}
			cs = append(cs, cm)
		}
		return cs.MarshalBinary()
	}
}

// cmdsKept: a command list decoded from b1 and kept by value (a second slice header) must not change when
// the same variable decodes b2 afterwards. Returns a description of the change, or "".
func cmdsKept(pkg string, up bool, b1, b2 []byte) string {
	var target interface {
		UnmarshalBinary(bool, []byte) error
	}
	switch pkg {
	case "clocksync":
		target = &clocksync.Commands{}
	case "multicastsetup":
		target = &multicastsetup.Commands{}
	case "fragmentation":
		target = &fragmentation.Commands{}
	default:
		target = &firmwaremanagement.Commands{}
	}
	if target.UnmarshalBinary(up, b1) != nil {
		return ""
	}
	kept := reflect.New(reflect.TypeOf(target).Elem())
	kept.Elem().Set(reflect.ValueOf(target).Elem())
	before := core.Dump(kept.Interface())
	target.UnmarshalBinary(up, b2)
	if now := core.Dump(kept.Interface()); now != before {
		return fmt.Sprintf("kept %s, now %s", short(before, 300), short(now, 300))
	}
	return ""
}

func cmdsUnmarshal(pkg string, up bool, b []byte) ([]appCmd, error) {
	var out []appCmd
	switch pkg {
	case "clocksync":
		var cs clocksync.Commands
		if err := cs.UnmarshalBinary(up, b); err != nil {
			return nil, err
		}
		for _, x := range cs {
			o := appCmd{cid: byte(x.CID)}
			if x.Payload != nil {
				o.payload = x.Payload
			}
			out = append(out, o)
		}
	case "multicastsetup":
		var cs multicastsetup.Commands
		if err := cs.UnmarshalBinary(up, b); err != nil {
			return nil, err
		}
		for _, x := range cs {
			o := appCmd{cid: byte(x.CID)}
			if x.Payload != nil {
				o.payload = x.Payload
			}
			out = append(out, o)
		}
	case "fragmentation":
		var cs fragmentation.Commands
		if err := cs.UnmarshalBinary(up, b); err != nil {
			return nil, err
		}
		for _, x := range cs {
			o := appCmd{cid: byte(x.CID)}
			if x.Payload != nil {
				o.payload = x.Payload
			}
			out = append(out, o)
		}
	default:
		var cs firmwaremanagement.Commands
		if err := cs.UnmarshalBinary(up, b); err != nil {
			return nil, err
		}
		for _, x := range cs {
			o := appCmd{cid: byte(x.CID)}
			if x.Payload != nil {
				o.payload = x.Payload
			}
			out = append(out, o)
		}
	}
	return out, nil
}

func dumpCmds(cs []appCmd) string {
	s := ""
	for _, x := range cs {
		s += fmt.Sprintf("{cid=%d %s} ", x.cid, core.Dump(x.payload))
	}
	return s
}

// commands without payload, per package and direction (CID 0 = PackageVersionReq, downlink)
var appNoPayload = map[string]map[bool][]byte{
	"clocksync":          {false: {0}},
	"multicastsetup":     {false: {0}},
	"fragmentation":      {false: {0}},
	"firmwaremanagement": {false: {0}},
}

func c18Stream(c *core.Ctx, r *core.RNG, types []appType) {
	pkg := []string{"clocksync", "multicastsetup", "fragmentation", "firmwaremanagement"}[r.Intn(4)]
	up := r.Bool()
	var pool []appType
	for _, a := range types {
		if a.pkg == pkg && a.up == up {
			pool = append(pool, a)
		}
	}
	n := 1 + r.Intn(6)
	if r.Chance(1, 5) {
		n = 7 + r.Intn(60) // long sequences: anything with a fixed-size internal buffer or a count field shows only here
	}
	var cmds []appCmd
	shape := ""
	for i := 0; i < n; i++ {
		np := appNoPayload[pkg][up]
		if len(np) > 0 && r.Chance(1, 5) {
			cmds = append(cmds, appCmd{cid: np[r.Intn(len(np))]})
			shape += "-"
			continue
		}
		a := pool[r.Intn(len(pool))]
		if a.name == "fragmentation.DataFragmentPayload" && i != n-1 {
			continue
		}
		p := genApp(r, a)
		if p == nil {
			continue
		}
		cmds = append(cmds, appCmd{cid: a.cid, payload: p})
		shape += fmt.Sprint(a.cid)
	}
	if len(cmds) == 0 {
		return
	}
	var b []byte
	var err error
	c.Eval(1)
	if pn, msg := core.Guard(func() { b, err = cmdsMarshal(pkg, cmds) }); pn || err != nil {
		c.Violate("C18|"+pkg+"|stream|encode-failed", "%v %s | %s", err, short(msg, 200), dumpCmds(cmds))
		return
	}
	var got []appCmd
	c.Eval(1)
	if pn, msg := core.Guard(func() { got, err = cmdsUnmarshal(pkg, up, b) }); pn {
		c.Violate("C18|"+pkg+"|stream|decode-panic", "%x: %s", b, short(msg, 300))
		return
	}
	if err != nil {
		// name the command the decoder could not step over
		culprit := "?"
		for i := range cmds {
			pb, e := cmdsMarshal(pkg, cmds[:i+1])
			if e != nil {
				break
			}
			if _, e := cmdsUnmarshal(pkg, up, pb); e != nil {
				culprit = fmt.Sprintf("cid=%d", cmds[i].cid)
				if i > 0 {
					culprit = fmt.Sprintf("cid=%d-after-cid=%d", cmds[i].cid, cmds[i-1].cid)
				}
				// the failing element is the first one that cannot be followed / decoded
				if _, e2 := cmdsUnmarshal(pkg, up, mustMarshal(pkg, cmds[i:i+1])); e2 == nil && i > 0 {
					culprit = fmt.Sprintf("command-following-cid=%d", cmds[i-1].cid)
				}
				break
			}
		}
		c.Violate(fmt.Sprintf("C18|%s|stream|up=%v|decode-refused|%s", pkg, up, culprit), "sequence %s encodes to %x which Commands.UnmarshalBinary refuses: %v", dumpCmds(cmds), b, err)
		return
	}
	if g, w := dumpCmds(got), dumpCmds(cmds); g != w {
		c.Violate(fmt.Sprintf("C18|%s|stream|up=%v|sequence-differs", pkg, up), "sent %s\n got %s\n bytes %x", w, g, b)
	}
	// a sequence decoded earlier and kept stays what it was when the same variable decodes another payload
	if len(b) > 2 {
		b2 := append([]byte{}, b[len(b)/2:]...)
		if r.Bool() {
			b2 = append(append([]byte{}, b...), b[:len(b)/3]...)
		}
		c.Eval(1)
		if diff := cmdsKept(pkg, up, b, b2); diff != "" {
			c.Violate(fmt.Sprintf("C18|%s|stream|kept-sequence-changed", pkg), "commands decoded from %x and kept by value changed when the same variable decoded %x: %s", b, b2, diff)
		}
	}
	c.Shape("stream", pkg, up, shape)
	if c.WantSample("stream") {
		c.Sample("stream", map[string]interface{}{"package": pkg, "uplink": up, "bytes": core.Hex(b), "commands": dumpCmds(cmds)})
	}
}

func mustMarshal(pkg string, cmds []appCmd) []byte {
	b, _ := cmdsMarshal(pkg, cmds)
	return b
}

func runC18(c *core.Ctx) {
	for k := int64(0); k < 40; k++ {
		if c.Mine("caller-defined-payload", k) {
			c18UserPayload(c, c.RNG("caller-defined-payload", k))
		}
	}
	types := appTypes()
	// ---- encode-first
	for ti, a := range types {
		ws, flat := c18Widths[a.name]
		mon := "encode-" + a.name
		idx := int64(0)
		if flat {
			// every value of every narrow field, others random in range
			for j, w := range ws {
				var cands []int64
				switch {
				case w == 0:
					cands = []int64{0, 1}
				case w > 0 && w <= 8:
					for v := 0; v < 1<<uint(w); v++ {
						cands = append(cands, int64(v))
					}
				case w == 2400:
					cands = []int64{0, 100, 1677721500, 868100000, 923300000, 1677721400}
				case w == -32:
					cands = []int64{0, 1, -1, 1<<31 - 1, -1 << 31, 65536, -65536}
				default:
					for _, v := range []int64{0, 1, 1<<uint(w) - 1, 1 << uint(w-1), 1<<uint(w-1) - 1, 255, 256, 65535, 65536} {
						if v < 1<<uint(w) {
							cands = append(cands, v)
						}
					}
				}
				for _, v := range cands {
					idx++
					if !c.Mine(mon, idx) {
						continue
					}
					r := c.RNG(mon, idx)
					for k := 0; k < 4; k++ {
						p := a.new()
						vals := make([]int64, len(ws))
						for i, wi := range ws {
							vals[i] = leafRandom(r, wi)
						}
						vals[j] = v
						if err := core.Fill(p, vals); err != nil {
							panic(fmt.Sprintf("harness: width table for %s: %v", a.name, err))
						}
						c18Value(c, a, p, r, "encode-first")
					}
					c.Shape("encode", a.name, j, v < 4 || v > (1<<uint(absInt(w)))-3)
				}
			}
			if len(ws) == 0 {
				idx++
				if c.Mine(mon, idx) {
					c18Value(c, a, a.new(), c.RNG(mon, idx), "encode-first")
				}
			}
		}
		n := c.N(300, 400000)
		for k := int64(0); k < n; k++ {
			idx++
			if !c.Mine(mon, idx) {
				continue
			}
			r := c.RNG(mon, idx)
			p := genApp(r, a)
			if p == nil {
				continue
			}
			c18Value(c, a, p, r, "encode-first")
			c.Shape("encode-random", a.name)
		}
		// ---- decode-first: all first bytes x tails
		reps := int(c.N(2, 200))
		for fb := 0; fb < 256; fb++ {
			idx++
			if !c.Mine("decode-"+a.name, idx) {
				continue
			}
			r := c.RNG("decode-"+a.name, idx)
			for k := 0; k < reps; k++ {
				in := append([]byte{byte(fb)}, r.Bytes(r.Intn(33))...)
				p := a.new()
				var err error
				c.Eval(1)
				if pn, msg := core.Guard(func() { err = p.UnmarshalBinary(in) }); pn {
					c.Violate("C18|"+a.name+"|decode-panic", "%x: %s", in, short(msg, 300))
					continue
				}
				if err != nil {
					continue
				}
				c18Value(c, a, p, r, "decode-first")
			}
			c.Shape("decode", a.name, fb>>4)
		}
		_ = ti
	}
	// values a user can construct that must not panic
	if c.Whole("constructible") {
		c.Eval(4)
		for st := 0; st < 4; st++ {
			p := &firmwaremanagement.DevUpgradeImageAnsPayload{}
			p.Status.UpImageStatus = firmwaremanagement.UpImageStatus(st)
			if pn, msg := core.Guard(func() { p.MarshalBinary() }); pn {
				c.Violate("C18|firmwaremanagement.DevUpgradeImageAnsPayload|encode-panic", "DevUpgradeImageAnsPayload{UpImageStatus: %d} (no version can be set from outside the package): %s", st, short(msg, 300))
			}
			cm := firmwaremanagement.Command{CID: firmwaremanagement.DevUpgradeImageAns, Payload: p}
			core.Guard(func() { cm.Size() })
		}
	}

	// ---- streams
	m := c.N(20000, 15000000)
	for i := int64(0); i < m; i++ {
		if c.Mine("stream", i) {
			c18Stream(c, c.RNG("stream", i), types)
		}
	}

	// ---- concurrent key derivations with distinct keys, each judged by the model
	if c.Mine("keys-concurrent", int64(c.Batch)) {
		var wg sync.WaitGroup
		var mu sync.Mutex
		var bad []string
		for g := 0; g < 8; g++ {
			wg.Add(1)
			go func(rr *core.RNG) {
				defer wg.Done()
				for k := 0; k < 300; k++ {
					key := key16(rr)
					var addr [4]byte
					rr.Fill(addr[:])
					got, err := multicastsetup.GetMcNetSKey(lorawan.AES128Key(key), lorawan.DevAddr(addr))
					want := spec.McKey(key, [16]byte{0x02, addr[3], addr[2], addr[1], addr[0]})
					got2, err2 := multicastsetup.GetMcRootKeyForAppKey(lorawan.AES128Key(key))
					want2 := spec.McKey(key, [16]byte{0x20})
					if err != nil || [16]byte(got) != want || err2 != nil || [16]byte(got2) != want2 {
						mu.Lock()
						bad = append(bad, fmt.Sprintf("key %x addr %x: McNetSKey %x (want %x), McRootKey %x (want %x)", key, addr, [16]byte(got), want, [16]byte(got2), want2))
						mu.Unlock()
						return
					}
					if k%5 == 0 {
						runtime.Gosched()
					}
				}
			}(c.RNG("keys-concurrent", int64(c.Batch)*100+int64(g)))
		}
		wg.Wait()
		c.Eval(8 * 600)
		if len(bad) > 0 {
			c.Violate("C18|keys|concurrent-derivation", "derivations with distinct keys on 8 goroutines disagree with TS005: %s", bad[0])
		}
		c.Shape("keys-concurrent", c.Batch)
	}

	// ---- multicast keys (TS005 §4)
	k := c.N(3000, 3000000)
	for i := int64(0); i < k; i++ {
		if !c.Mine("keys", i) {
			continue
		}
		r := c.RNG("keys", i)
		key := key16(r)
		if i%17 == 0 {
			key = [16]byte{}
		}
		var addr [4]byte
		r.Fill(addr[:])
		chk := func(name string, got lorawan.AES128Key, err error, block [16]byte) {
			c.Eval(1)
			want := spec.McKey(key, block)
			if err != nil || [16]byte(got) != want {
				c.Violate("C18|keys|"+name, "%s(key %x, addr %x) = %x (err %v), TS005 derivation gives %x", name, key, addr, [16]byte(got), err, want)
			}
		}
		g, err := multicastsetup.GetMcRootKeyForGenAppKey(lorawan.AES128Key(key))
		chk("GetMcRootKeyForGenAppKey", g, err, [16]byte{})
		g, err = multicastsetup.GetMcRootKeyForAppKey(lorawan.AES128Key(key))
		chk("GetMcRootKeyForAppKey", g, err, [16]byte{0x20})
		g, err = multicastsetup.GetMcKEKey(lorawan.AES128Key(key))
		chk("GetMcKEKey", g, err, [16]byte{})
		g, err = multicastsetup.GetMcAppSKey(lorawan.AES128Key(key), lorawan.DevAddr(addr))
		chk("GetMcAppSKey", g, err, [16]byte{0x01, addr[3], addr[2], addr[1], addr[0]})
		g, err = multicastsetup.GetMcNetSKey(lorawan.AES128Key(key), lorawan.DevAddr(addr))
		chk("GetMcNetSKey", g, err, [16]byte{0x02, addr[3], addr[2], addr[1], addr[0]})
		c.Shape("keys", i%17 == 0, addr[0]>>6)
	}
	_ = bytes.Equal
}

func absInt(v int) int {
	if v < 0 {
		return -v
	}
	if v > 32 {
		return 24
	}
	return v
}
