package mon

import (
	"bytes"
	"fmt"

	"github.com/brocaar/lorawan"

	"lwverif/core"
	"lwverif/spec"
)

func init() {
	core.Register(&core.Property{
		ID:          "C08",
		Rule:        "byte strings fed to PHYPayload.UnmarshalBinary: (i) uniform random strings of every length 0..256; (ii) structure-aware mutations of valid frames of all 8 MTypes (truncate/extend by 1..3 bytes at every structural boundary, every FOptsLen nibble, FPort forced to 0, splices of two frames, 1-3 bit flips, every RFU-free MHDR value, every rejoin-type byte); (ii-b) valid and header-only frames decoded into one re-used PHYPayload value (which in one case of six has just received a frame with reserved MHDR bits set); (iii) the complete sweep of the 32 RFU-free MHDR values x 600 seeded bodies of 4..30 bytes around every length guard. Oracle: whenever the decoder accepts a string whose MHDR bits 4..2 are zero, MarshalBinary must succeed and return exactly that string, and decoding the output must give an equal frame. A run with fewer than 300 accepted inputs for any MType is inconclusive. Distinct = (MType, length class, FOptsLen, FPort kind, mutation kind, accepted?).",
		Assumptions: []string{"frames with MHDR RFU bits (4..2) set are outside the property (the decoder drops those bits by design, see C05 finding)"},
		MinEvals:    1000,
		Run:         runC08,
		Post: func(cn map[string]int64) []string {
			var out []string
			for mt := 0; mt < 8; mt++ {
				if n := cn[fmt.Sprintf("accepted.mtype%d", mt)]; n < 300 {
					out = append(out, fmt.Sprintf("only %d accepted inputs of MType %d (< 300)", n, mt))
				}
			}
			return out
		},
	})
}

// validFrameBytes returns spec-serialised valid frames of the requested MType.
func validFrameBytes(r *core.RNG, mtype int) []byte {
	var mic [4]byte
	r.Fill(mic[:])
	switch mtype {
	case 0:
		return append(spec.JoinRequestBytes(byte(r.Intn(4)), eui(r), eui(r), uint16(r.U32())), mic[:]...)
	case 1:
		n := 12
		if r.Bool() {
			n = 28
		}
		return append(append([]byte{1<<5 | byte(r.Intn(4))}, r.Bytes(n)...), mic[:]...)
	case 6:
		var nid [3]byte
		r.Fill(nid[:])
		if r.Bool() {
			return append(spec.Rejoin1Bytes(6<<5|byte(r.Intn(4)), 1, eui(r), eui(r), uint16(r.U32())), mic[:]...)
		}
		return append(spec.Rejoin02Bytes(6<<5|byte(r.Intn(4)), byte(2*r.Intn(2)), nid, eui(r), uint16(r.U32())), mic[:]...)
	case 7:
		return append(append([]byte{7<<5 | byte(r.Intn(4))}, r.Bytes(r.Intn(60))...), mic[:]...)
	}
	o := anyData()
	o.mtype = mtype
	o.maxFRM = 60
	d := genDataCase(r, o)
	return append(d.Spec.Msg(), mic[:]...)
}

func c08Check(c *core.Ctx, b []byte, kind string) {
	in := append([]byte{}, b...)
	var phy lorawan.PHYPayload
	var err error
	c.Eval(1)
	if p, msg := core.Guard(func() { err = phy.UnmarshalBinary(in) }); p {
		c.Violate("C08|decode-panic|"+core.PanicSite(msg), "%x: %s", b, short(msg, 300))
		return
	}
	mt := -1
	if len(b) > 0 {
		mt = int(b[0] >> 5)
	}
	if err != nil {
		c.Shape("rejected", mt, lenClassName(len(b)), kind)
		return
	}
	if b[0]&0x1c != 0 {
		c.Count("accepted.mhdr-rfu-set(outside-property)", 1)
		return
	}
	c.Count(fmt.Sprintf("accepted.mtype%d", mt), 1)
	fl, pk := -1, "-"
	if mp, ok := phy.MACPayload.(*lorawan.MACPayload); ok {
		fb, _ := payloadBytes(mp.FHDR.FOpts)
		fl = len(fb)
		switch {
		case mp.FPort == nil:
			pk = "absent"
		case *mp.FPort == 0:
			pk = "0"
		default:
			pk = ">0"
		}
	}
	c.Shape("accepted", mt, lenClassName(len(b)), fl, pk, kind)
	var out []byte
	c.Eval(1)
	if p, msg := core.Guard(func() { out, err = phy.MarshalBinary() }); p {
		c.Violate("C08|reencode-panic|"+core.PanicSite(msg), "%x: %s", b, short(msg, 300))
		return
	}
	if err != nil {
		c.Violate(fmt.Sprintf("C08|accepted-but-unencodable|mtype=%d|%s", mt, err.Error()), "decoder accepts %x (FOptsLen %d, FPort %s) but the encoder refuses the result: %v", b, fl, pk, err)
		return
	}
	if !bytes.Equal(out, b) {
		c.Violate(fmt.Sprintf("C08|reencode-differs|mtype=%d", mt), "accepted %x\nre-encoded %x", b, out)
		return
	}
	var again lorawan.PHYPayload
	if err := again.UnmarshalBinary(out); err != nil || core.Dump(again) != core.Dump(phy) {
		c.Violate(fmt.Sprintf("C08|redecode-differs|mtype=%d", mt), "decode(encode(decode(%x))) differs (%v)", b, err)
	}
	// what a network server does between receiving and forwarding: verify the MIC, log the frame
	var key lorawan.AES128Key
	for i := range key {
		key[i] = byte(i*37) ^ b[i%len(b)]
	}
	var rx lorawan.PHYPayload
	if rx.UnmarshalBinary(append([]byte{}, b...)) != nil {
		return
	}
	step := ""
	if p, msg := core.Guard(func() {
		switch mt {
		case 2, 4:
			step = "ValidateUplinkDataMIC"
			rx.ValidateUplinkDataMIC(lorawan.LoRaWAN1_0, 0, 0, 0, key, key)
			rx.ValidateUplinkDataMIC(lorawan.LoRaWAN1_1, 7, 2, 3, key, key)
			rx.ValidateUplinkDataMICF(key)
		case 3, 5:
			step = "ValidateDownlinkDataMIC"
			rx.ValidateDownlinkDataMIC(lorawan.LoRaWAN1_0, 0, key)
			rx.ValidateDownlinkDataMIC(lorawan.LoRaWAN1_1, 9, key)
		case 0, 6:
			step = "ValidateUplinkJoinMIC"
			rx.ValidateUplinkJoinMIC(key)
		case 1:
			step = "ValidateDownlinkJoinMIC"
			rx.ValidateDownlinkJoinMIC(lorawan.JoinRequestType, lorawan.EUI64{1, 2, 3, 4, 5, 6, 7, 8}, 77, key)
		}
		rx.MarshalText()
		rx.MarshalJSON()
	}); p {
		c.Violate("C08|verify-panic|"+step+"|"+core.PanicSite(msg), "%x: %s", b, short(msg, 300))
		return
	}
	c.Eval(1)
	if fwd, err := rx.MarshalBinary(); err != nil || !bytes.Equal(fwd, b) {
		c.Violate(fmt.Sprintf("C08|changed-by-verification|mtype=%d", mt), "received %x; after %s / MarshalText / MarshalJSON the frame re-encodes to %x (err %v)", b, step, fwd, err)
	}
}

func runC08(c *core.Ctx) {
	// (i) uniform random strings, every length
	reps := c.N(60, 60000)
	idx := int64(0)
	for rep := int64(0); rep < reps; rep++ {
		if !c.Mine("uniform", rep) {
			continue
		}
		r := c.RNG("uniform", rep)
		for ln := 0; ln <= 256; ln++ {
			b := r.Bytes(ln)
			if ln > 0 && r.Bool() {
				b[0] &^= 0x1c // keep it inside the property half of the time
			}
			c08Check(c, b, "uniform")
		}
	}

	// (ii) structure-aware mutations
	n := c.N(40000, 60000000)
	for i := int64(0); i < n; i++ {
		if !c.Mine("mutate", i) {
			continue
		}
		r := c.RNG("mutate", i)
		mt := int(i % 8)
		b := validFrameBytes(r, mt)
		if c.WantSample("mutate") {
			c.Sample("mutate", map[string]interface{}{"mtype": mt, "valid_frame": core.Hex(b)})
		}
		kind := "valid"
		switch r.Intn(12) {
		case 0: // truncate at the end
			k := 1 + r.Intn(3)
			if k < len(b) {
				b = b[:len(b)-k]
			}
			kind = "truncate"
		case 1: // extend
			b = append(b, r.Bytes(1+r.Intn(3))...)
			kind = "extend"
		case 2: // cut or insert at a structural boundary of a data frame
			cuts := []int{1, 5, 6, 8, 9}
			if len(b) > 9 {
				cuts = append(cuts, 8+int(b[5]&15), 9+int(b[5]&15))
			}
			at := cuts[r.Intn(len(cuts))]
			if at < len(b) {
				if r.Bool() {
					b = append(append([]byte{}, b[:at]...), b[at+1:]...)
				} else {
					b = append(append(append([]byte{}, b[:at]...), r.Byte()), b[at:]...)
				}
			}
			kind = "boundary"
		case 3: // FOptsLen nibble
			if len(b) > 5 {
				b[5] = b[5]&0xf0 | byte(r.Intn(16))
			}
			kind = "foptslen"
		case 4: // FPort forced to 0
			if len(b) > 5 && len(b) > 8+int(b[5]&15)+4 {
				b[8+int(b[5]&15)] = 0
			}
			kind = "fport0"
		case 5: // FPort 0 directly followed by the MIC (no FRMPayload), with FOpts
			if mt >= 2 && mt <= 5 {
				fl := 1 + r.Intn(15)
				nb := append([]byte{b[0]}, r.Bytes(4)...)
				nb = append(nb, byte(r.Intn(16))<<4|byte(fl), r.Byte(), r.Byte())
				nb = append(nb, r.Bytes(fl)...)
				nb = append(nb, 0)
				b = append(nb, r.Bytes(4)...)
			}
			kind = "fopts+fport0+empty"
		case 6: // splice
			o := validFrameBytes(r, r.Intn(8))
			at := r.Intn(len(b))
			at2 := r.Intn(len(o))
			b = append(append([]byte{}, b[:at]...), o[at2:]...)
			kind = "splice"
		case 7: // bit flips
			for k := 1 + r.Intn(3); k > 0; k-- {
				flipBit(b, r)
			}
			b[0] &^= 0x1c
			kind = "bitflip"
		case 8: // every RFU-free MHDR
			b[0] = byte(r.Intn(8))<<5 | byte(r.Intn(4))
			kind = "mhdr"
		case 9: // rejoin type byte
			if len(b) > 1 {
				b[0] = 6<<5 | b[0]&3
				b[1] = byte(i / 12)
				if r.Bool() {
					// give it one of the two rejoin lengths
					want := 1 + 14 + 4
					if r.Bool() {
						want = 1 + 19 + 4
					}
					for len(b) < want {
						b = append(b, r.Byte())
					}
					b = b[:want]
				}
			}
			kind = "rejointype"
		}
		c08Check(c, b, kind)
	}

	// (ii-b) a receiver that decodes successive inputs into the same PHYPayload value
	m := c.N(20000, 20000000)
	var reused lorawan.PHYPayload
	// frames the receive loop kept by value (queued for forwarding) while it went on decoding into the same variable
	type keptFrame struct {
		phy  lorawan.PHYPayload
		wire []byte
	}
	var queue []keptFrame
	for i := int64(0); i < m; i++ {
		if !c.Mine("reused-receiver", i) {
			continue
		}
		if len(queue) >= 3 {
			for _, kf := range queue {
				c.Eval(1)
				if out, err := kf.phy.MarshalBinary(); err != nil || !bytes.Equal(out, kf.wire) {
					c.Violate("C08|kept-frame-changed", "a received frame kept by value (%x) re-encodes as %x (%v) after the same variable received later frames", kf.wire, out, err)
					break
				}
			}
			queue = queue[:0]
		}
		r := c.RNG("reused-receiver", i)
		mt := 2 + r.Intn(4)
		if r.Chance(1, 4) {
			mt = r.Intn(8)
		}
		b := validFrameBytes(r, mt)
		if r.Chance(1, 3) && mt >= 2 && mt <= 5 { // header-only frame (e.g. an empty ACK)
			b = append(append([]byte{}, b[:8]...), b[len(b)-4:]...)
			b[5] &= 0xf0
		}
		b[0] &^= 0x1c
		if r.Chance(1, 6) {
			// what the value received before need not have been in the domain: a frame with reserved MHDR
			// bits set (its own acceptance is not judged here) must leave nothing behind for the next one
			pre := append([]byte{}, b...)
			pre[0] |= byte(1+r.Intn(7)) << 2
			core.Guard(func() { _ = reused.UnmarshalBinary(pre) })
		}
		var err error
		c.Eval(1)
		if p, msg := core.Guard(func() { err = reused.UnmarshalBinary(append([]byte{}, b...)) }); p {
			c.Violate("C08|decode-panic|reused|"+core.PanicSite(msg), "%x: %s", b, short(msg, 300))
			reused = lorawan.PHYPayload{}
			continue
		}
		if err != nil {
			continue
		}
		out, err := reused.MarshalBinary()
		if err != nil || !bytes.Equal(out, b) {
			c.Violate(fmt.Sprintf("C08|reused-receiver|mtype=%d", mt), "a PHYPayload value that decoded other frames before accepts %x but re-encodes it as %x (%v)", b, out, err)
			reused = lorawan.PHYPayload{}
		} else {
			queue = append(queue, keptFrame{reused, b})
		}
		c.Shape("reused", mt, lenClassName(len(b)))
	}

	// (iii) all RFU-free MHDR values x bodies around the length guards
	bodies := 600
	for mh := 0; mh < 32; mh++ {
		if !c.Mine("guards", int64(mh)) {
			continue
		}
		r := c.RNG("guards", int64(mh))
		for k := 0; k < bodies; k++ {
			ln := 4 + k%27
			b := append([]byte{byte(mh>>2)<<5 | byte(mh&3)}, r.Bytes(ln)...)
			if k%3 == 0 && ln > 5 {
				b[5] = b[5]&0xf0 | byte(k/3%16)
			}
			if k%5 == 0 && len(b) > 1 {
				b[1] = byte(k / 5 % 4) // rejoin types 0..3
			}
			c08Check(c, b, "guards")
		}
	}
	if !c.Replay {
		c.Exhaustive("guards: 32 RFU-free MHDR values x 600 bodies")
	}
	_ = idx
}
