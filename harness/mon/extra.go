package mon

import (
	"github.com/brocaar/lorawan"

	"lwverif/spec"
)

// Standard-range commands the library knows from the start and the specification table of this harness
// does not (the table describes LoRaWAN 1.0.3 / 1.1): they are framed with the size the library registers,
// and reported in the evidence as a counter, not as a violation - the properties speak of the 29 described
// commands and of "every CID x direction in the registry" without forbidding a further entry.
func init() {
	snap := lorawan.VerifRegistrySnapshot()
	for _, up := range []bool{true, false} {
		for cid, size := range snap[up] {
			if byte(cid) < 0x80 && spec.MACLayout(up, byte(cid)) == nil {
				spec.ExtraSizes[up][byte(cid)] = size
			}
		}
	}
}

// majorR1Only: the Major field of the MHDR has one defined value (00, LoRaWAN R1); 01..11 are reserved. The
// library carries any of the four through its codecs, and the workloads use that (the MIC covers those
// bits); a library that refuses frames of a reserved major version breaks none of the properties - they
// speak of spec-valid frames. Probed once per process: if such a frame is refused by the frame encoder or
// decoder, the generators keep to major version 0.
var majorR1Only = func() bool {
	p := uint8(1)
	phy := lorawan.PHYPayload{MHDR: lorawan.MHDR{MType: lorawan.UnconfirmedDataUp, Major: lorawan.Major(1)},
		MACPayload: &lorawan.MACPayload{FHDR: lorawan.FHDR{DevAddr: lorawan.DevAddr{1, 2, 3, 4}}, FPort: &p, FRMPayload: []lorawan.Payload{&lorawan.DataPayload{Bytes: []byte{1}}}}}
	refused := false
	func() {
		defer func() {
			if recover() != nil {
				refused = false // a panic is for the monitors to find, not for the probe to hide
			}
		}()
		b, err := phy.MarshalBinary()
		if err != nil {
			refused = true
			return
		}
		var back lorawan.PHYPayload
		if back.UnmarshalBinary(b) != nil {
			refused = true
		}
	}()
	return refused
}()

// mj maps a generated major version to one the library under test carries.
func mj(v byte) byte {
	if majorR1Only {
		return 0
	}
	return v
}
