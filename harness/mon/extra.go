package mon

import (
	"github.com/brocaar/lorawan"

	"lwverif/spec"
)

// Standard-range commands the library knows from the start and the specification table of this harness
// does not (the table describes LoRaWAN 1.0.3 / 1.1): they are framed with the size the library registers,
// and reported in the evidence as a counter, not as a violation - the properties speak of the 29 described
// commands and of "every CID x direction in the registry" without forbidding a further entry.
func init() {
	snap := lorawan.VerifRegistrySnapshot()
	for _, up := range []bool{true, false} {
		for cid, size := range snap[up] {
			if byte(cid) < 0x80 && spec.MACLayout(up, byte(cid)) == nil {
				spec.ExtraSizes[up][byte(cid)] = size
			}
		}
	}
}
