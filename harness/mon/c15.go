package mon

import (
	"fmt"
	"math"
	"reflect"
	"sort"

	"github.com/brocaar/lorawan"
	"github.com/brocaar/lorawan/band"

	"lwverif/core"
	"lwverif/spec"
)

func init() {
	core.Register(&core.Property{
		ID:   "C15",
		Rule: "for every band configuration, seeded histories (length <= 30; one in seven 60..180) over AddChannel(f, minDR, maxDR) / DisableUplinkChannelIndex(i) / EnableUplinkChannelIndex(i) with arbitrary integers (negative, == len, huge) run in lock-step with a sequential model of the channel plan; after every operation the five index-set getters (with the partition laws), GetUplinkChannel / GetDownlinkChannel for every index -2..len+1, the frequency and frequency+DR lookups for every present pair and some absent ones, GetTXPowerOffset(-2..20) and GetCFList for the 6 protocol versions + an unknown one are compared with the model; invalid arguments must give errors, never panics, and must leave the state unchanged. Every frequency / data-rate / CFList the band hands out (RX2 and ping-slot defaults, every channel, RX1 results, CFList) is pushed through RXParamSetupReq, NewChannelReq, DLChannelReq, PingSlotChannelReq, BeaconFreqReq and CFList/JoinAcceptPayload encode->decode and must come back equal. Distinct = (band, operation kind, argument class) / (band, MAC command, source of the value).",
		Assumptions: []string{
			"AddChannel frequencies are multiples of 100 Hz inside the band (multiples of 200 Hz for ISM2400) and, one time in six, any multiple of 100 Hz that a 24-bit frequency field can carry (100 MHz - 1677.7215 MHz; NewChannelReq is not asked to carry 1.2-2.4 GHz, for which it has no coding); frequency 0 (an unused placeholder slot) one time in twelve",
			"GetCFList lists custom channels regardless of their enabled flag (the property only asks for 'its custom channels, first five, in order')",
		},
		MinEvals: 1000,
		Run:      runC15,
	})
}

type chModel struct {
	freq     uint32
	min, max int
	enabled  bool
	custom   bool
}

func c15Compare(c *core.Ctx, cfg bandCfg, b band.Band, up []chModel, down []chModel, reg *spec.Region, trace []string) bool {
	okAll := true
	bad := func(what, f string, a ...interface{}) {
		okAll = false
		c.Violate("C15|"+cfg.Name+"|"+what, "%s | after %v", fmt.Sprintf(f, a...), trace)
	}
	var all, std, cus, en, dis []int
	for i, ch := range up {
		all = append(all, i)
		if ch.custom {
			cus = append(cus, i)
		} else {
			std = append(std, i)
		}
		if ch.enabled {
			en = append(en, i)
		} else {
			dis = append(dis, i)
		}
	}
	// index *sets*: the same members with the same multiplicity; the order in which they are reported is
	// not part of the property (the library reports ascending)
	eq := func(a, b []int) bool {
		x, y := append([]int{}, a...), append([]int{}, b...)
		sort.Ints(x)
		sort.Ints(y)
		return fmt.Sprint(x) == fmt.Sprint(y) || (len(x) == 0 && len(y) == 0)
	}
	// what a getter returns is the caller's: overwriting it must not reach the band (or an earlier result)
	{
		first := [][]int{b.GetUplinkChannelIndices(), b.GetStandardUplinkChannelIndices(), b.GetCustomUplinkChannelIndices(), b.GetEnabledUplinkChannelIndices(), b.GetDisabledUplinkChannelIndices(), b.GetEnabledUplinkDataRates()}
		keep := make([]string, len(first))
		for i, s := range first {
			keep[i] = fmt.Sprint(s)
		}
		again := [][]int{b.GetUplinkChannelIndices(), b.GetStandardUplinkChannelIndices(), b.GetCustomUplinkChannelIndices(), b.GetEnabledUplinkChannelIndices(), b.GetDisabledUplinkChannelIndices(), b.GetEnabledUplinkDataRates()}
		for _, s := range again {
			for i := range s {
				s[i] = -7
			}
			_ = append(s, 99, 98, 97)
		}
		for i, s := range first {
			if fmt.Sprint(s) != keep[i] {
				bad("returned-slice-shared", "an index list returned earlier changed when a later result of the same getter was overwritten: %s -> %v", keep[i], s)
			}
		}
	}
	c.Eval(5)
	if g := b.GetUplinkChannelIndices(); !eq(g, all) {
		bad("index-set|all", "GetUplinkChannelIndices %v, model %v", g, all)
	}
	if g := b.GetStandardUplinkChannelIndices(); !eq(g, std) {
		bad("index-set|standard", "GetStandardUplinkChannelIndices %v, model %v", g, std)
	}
	if g := b.GetCustomUplinkChannelIndices(); !eq(g, cus) {
		bad("index-set|custom", "GetCustomUplinkChannelIndices %v, model %v", g, cus)
	}
	if g := b.GetEnabledUplinkChannelIndices(); !eq(g, en) {
		bad("index-set|enabled", "GetEnabledUplinkChannelIndices %v, model %v", g, en)
	}
	if g := b.GetDisabledUplinkChannelIndices(); !eq(g, dis) {
		bad("index-set|disabled", "GetDisabledUplinkChannelIndices %v, model %v", g, dis)
	}
	// channel getters, including out-of-range indices
	for i := -2; i <= len(up)+1; i++ {
		var ch band.Channel
		var err error
		c.Eval(1)
		if p, msg := core.Guard(func() { ch, err = b.GetUplinkChannel(i) }); p {
			bad("panic|GetUplinkChannel", "GetUplinkChannel(%d) with %d channels panics: %s", i, len(up), short(msg, 200))
		} else if i < 0 || i >= len(up) {
			if err == nil {
				bad("invalid-accepted|GetUplinkChannel", "GetUplinkChannel(%d) with %d channels accepted", i, len(up))
			}
		} else if err != nil || ch.Frequency != up[i].freq || ch.MinDR != up[i].min || ch.MaxDR != up[i].max {
			bad("uplink-channel", "GetUplinkChannel(%d) = %+v (%v), model %+v", i, ch, err, up[i])
		}
	}
	for i := -2; i <= len(down)+1; i++ {
		var ch band.Channel
		var err error
		c.Eval(1)
		if p, msg := core.Guard(func() { ch, err = b.GetDownlinkChannel(i) }); p {
			bad("panic|GetDownlinkChannel", "GetDownlinkChannel(%d) with %d channels panics: %s", i, len(down), short(msg, 200))
		} else if i < 0 || i >= len(down) {
			if err == nil {
				bad("invalid-accepted|GetDownlinkChannel", "GetDownlinkChannel(%d) with %d channels accepted", i, len(down))
			}
		} else if err != nil || ch.Frequency != down[i].freq || ch.MinDR != down[i].min || ch.MaxDR != down[i].max {
			bad("downlink-channel", "GetDownlinkChannel(%d) = %+v (%v), model %+v", i, ch, err, down[i])
		}
	}
	// lookups
	for i, ch := range up {
		if i > 20 && i%7 != 0 {
			continue
		}
		var idx int
		var err error
		c.Eval(2)
		if p, msg := core.Guard(func() { idx, err = b.GetUplinkChannelIndex(ch.freq, !ch.custom) }); p || err != nil {
			bad("lookup|GetUplinkChannelIndex", "GetUplinkChannelIndex(%d, default=%v) fails for an existing channel: %v %s", ch.freq, !ch.custom, err, short(msg, 150))
		} else if idx < 0 || idx >= len(up) || up[idx].freq != ch.freq || up[idx].custom != ch.custom {
			bad("lookup|GetUplinkChannelIndex", "GetUplinkChannelIndex(%d, default=%v) = %d which is %+v", ch.freq, !ch.custom, idx, at(up, idx))
		}
		for _, dr := range []int{ch.min, ch.max} {
			if dr < ch.min || dr > ch.max {
				continue
			}
			if p, msg := core.Guard(func() { idx, err = b.GetUplinkChannelIndexForFrequencyDR(ch.freq, dr) }); p || err != nil {
				bad("lookup|GetUplinkChannelIndexForFrequencyDR", "(%d Hz, DR%d) fails although channel %d matches: %v %s", ch.freq, dr, i, err, short(msg, 150))
			} else if idx < 0 || idx >= len(up) || up[idx].freq != ch.freq || dr < up[idx].min || dr > up[idx].max {
				bad("lookup|GetUplinkChannelIndexForFrequencyDR", "(%d Hz, DR%d) = %d which is %+v", ch.freq, dr, idx, at(up, idx))
			}
		}
	}
	// every data-rate index -1..16 against the frequencies of a few channels: an index is returned exactly
	// when some channel on that frequency carries the data-rate, and that channel is the one returned
	for k := 0; k < len(up) && k < 80; k += 1 + len(up)/12 {
		f := up[k].freq
		for dr := -1; dr <= 16; dr++ {
			exists := false
			for _, ch := range up {
				if ch.freq == f && dr >= ch.min && dr <= ch.max {
					exists = true
				}
			}
			var idx int
			var err error
			c.Eval(1)
			if p, msg := core.Guard(func() { idx, err = b.GetUplinkChannelIndexForFrequencyDR(f, dr) }); p {
				bad("panic|GetUplinkChannelIndexForFrequencyDR", "(%d Hz, DR%d): %s", f, dr, short(msg, 150))
			} else if exists != (err == nil) {
				bad(fmt.Sprintf("lookup|GetUplinkChannelIndexForFrequencyDR|verdict|found=%v", err == nil), "(%d Hz, DR%d): err=%v idx=%d, but a channel on that frequency carrying DR%d exists=%v", f, dr, err, idx, dr, exists)
			} else if err == nil && (idx < 0 || idx >= len(up) || up[idx].freq != f || dr < up[idx].min || dr > up[idx].max) {
				bad("lookup|GetUplinkChannelIndexForFrequencyDR", "(%d Hz, DR%d) = %d which is %+v", f, dr, idx, at(up, idx))
			}
		}
	}
	// absent frequency
	absent := uint32(123400)
	if _, err := b.GetUplinkChannelIndex(absent, true); err == nil {
		bad("lookup|absent-accepted", "GetUplinkChannelIndex(%d) succeeded", absent)
	}
	if _, err := b.GetUplinkChannelIndexForFrequencyDR(absent, 0); err == nil {
		bad("lookup|absent-accepted", "GetUplinkChannelIndexForFrequencyDR(%d, 0) succeeded", absent)
	}
	if len(up) > 0 {
		if idx, err := b.GetUplinkChannelIndexForFrequencyDR(up[0].freq, 99); err == nil && (idx >= len(up) || up[idx].freq != up[0].freq || 99 < up[idx].min || 99 > up[idx].max) {
			bad("lookup|wrong-dr-accepted", "GetUplinkChannelIndexForFrequencyDR(%d, 99) = %d", up[0].freq, idx)
		}
	}
	// CFList
	for _, ver := range []string{band.LoRaWAN_1_0_0, band.LoRaWAN_1_0_1, band.LoRaWAN_1_0_2, band.LoRaWAN_1_0_3, band.LoRaWAN_1_0_4, band.LoRaWAN_1_1_0, "zz"} {
		var cf *lorawan.CFList
		c.Eval(1)
		if p, msg := core.Guard(func() { cf = b.GetCFList(ver) }); p {
			bad("panic|GetCFList", "GetCFList(%s): %s", ver, short(msg, 200))
			continue
		}
		var want *lorawan.CFList
		if reg.ExtraChannels {
			var pl lorawan.CFListChannelPayload
			k := 0
			for _, ch := range up {
				if ch.custom && k < 5 && ch.min == reg.CFListMinDR && ch.max == reg.CFListMaxDR {
					pl.Channels[k] = ch.freq
					k++
				}
			}
			if k > 0 {
				want = &lorawan.CFList{CFListType: lorawan.CFListChannel, Payload: &pl}
			}
		} else if ver != band.LoRaWAN_1_0_0 && ver != band.LoRaWAN_1_0_1 && ver != band.LoRaWAN_1_0_2 {
			var pl lorawan.CFListChannelMaskPayload
			for i := 0; i < len(up); i += 16 {
				var m lorawan.ChMask
				for k := 0; k < 16 && i+k < len(up); k++ {
					m[k] = up[i+k].enabled
				}
				pl.ChannelMasks = append(pl.ChannelMasks, m)
			}
			want = &lorawan.CFList{CFListType: lorawan.CFListChannelMask, Payload: &pl}
		}
		if g, w := core.Dump(cf), core.Dump(want); g != w {
			bad("cflist|version="+ver, "GetCFList(%s) = %s, model %s", ver, short(g, 300), short(w, 300))
		} else if cf != nil {
			c15Encodable(c, cfg, "CFList", "GetCFList("+ver+")", func() (interface{}, interface{}, error) {
				ja := lorawan.JoinAcceptPayload{CFList: cf}
				bts, err := ja.MarshalBinary()
				if err != nil {
					return nil, nil, err
				}
				var back lorawan.JoinAcceptPayload
				if err := back.UnmarshalBinary(false, bts); err != nil {
					return nil, nil, err
				}
				stripZeroMasks(&back)
				orig := lorawan.JoinAcceptPayload{CFList: cf}
				o2 := cloneJoinAccept(&orig)
				stripZeroMasks(o2)
				return back.CFList, o2.CFList, nil
			})
			// the CFList handed out is the caller's: a join-server that edits it (or keeps it) must not change
			// what the band hands out next
			before := core.Dump(cf)
			cf2 := b.GetCFList(ver)
			core.Scribble(cf2)
			if now := core.Dump(cf); now != before {
				bad("cflist-shared", "a CFList obtained from GetCFList(%s) changed when another one obtained later was overwritten", ver)
			} else if cf3 := b.GetCFList(ver); core.Dump(cf3) != before {
				bad("cflist-shared", "GetCFList(%s) hands out something else after an earlier result was overwritten by the caller: %s, before %s", ver, short(core.Dump(cf3), 200), short(before, 200))
			}
		}
	}
	return okAll
}

func at(up []chModel, i int) interface{} {
	if i < 0 || i >= len(up) {
		return "no channel"
	}
	return up[i]
}

// c15Encodable runs one encode->decode experiment; f returns (decoded, original).
func c15Encodable(c *core.Ctx, cfg bandCfg, cmd, source string, f func() (interface{}, interface{}, error)) {
	var got, want interface{}
	var err error
	c.Eval(1)
	if p, msg := core.Guard(func() { got, want, err = f() }); p {
		c.Violate("C15|"+cfg.Name+"|encodability-panic|"+cmd, "%s from %s: %s", cmd, source, short(msg, 200))
		return
	}
	if err != nil {
		c.Violate("C15|"+cfg.Name+"|not-encodable|"+cmd, "%s cannot carry the value the band hands out (%s): %v", cmd, source, err)
		return
	}
	if g, w := core.Dump(got), core.Dump(want); g != w {
		c.Violate("C15|"+cfg.Name+"|encodes-differently|"+cmd, "%s from %s: decoded %s, original %s", cmd, source, g, w)
	}
	c.Shape("encodable", cfg.Name, cmd, source[:minInt(len(source), 12)])
}

func minInt(a, b int) int {
	if a < b {
		return a
	}
	return b
}

func roundTripMAC(pl lorawan.MACCommandPayload) (interface{}, interface{}, error) {
	b, err := pl.MarshalBinary()
	if err != nil {
		return nil, nil, err
	}
	back := reflect.New(reflect.TypeOf(pl).Elem()).Interface().(lorawan.MACCommandPayload)
	if err := back.UnmarshalBinary(b); err != nil {
		return nil, nil, err
	}
	return back, pl, nil
}

func c15Outputs(c *core.Ctx, cfg bandCfg, b band.Band, up, down []chModel) {
	d := b.GetDefaults()
	c15Encodable(c, cfg, "RXParamSetupReq", "RX2 defaults", func() (interface{}, interface{}, error) {
		return roundTripMAC(&lorawan.RXParamSetupReqPayload{Frequency: d.RX2Frequency, DLSettings: lorawan.DLSettings{RX2DataRate: uint8(d.RX2DataRate)}})
	})
	ps, _ := b.GetPingSlotFrequency(lorawan.DevAddr{1, 2, 3, 4}, 0)
	c15Encodable(c, cfg, "PingSlotChannelReq", "ping-slot frequency", func() (interface{}, interface{}, error) {
		return roundTripMAC(&lorawan.PingSlotChannelReqPayload{Frequency: ps, DR: uint8(d.RX2DataRate)})
	})
	c15Encodable(c, cfg, "BeaconFreqReq", "ping-slot frequency", func() (interface{}, interface{}, error) {
		return roundTripMAC(&lorawan.BeaconFreqReqPayload{Frequency: ps})
	})
	for i, ch := range up {
		if i > 10 && i%9 != 0 {
			continue
		}
		i, ch := i, ch
		if ch.freq < 1200000000 || ch.freq >= 2400000000 { // NewChannelReq has no coding for 1.2-2.4 GHz; such a custom channel is the operator's doing, not the band's
			c15Encodable(c, cfg, "NewChannelReq", "uplink channel", func() (interface{}, interface{}, error) {
				return roundTripMAC(&lorawan.NewChannelReqPayload{ChIndex: uint8(i), Freq: ch.freq, MinDR: uint8(ch.min), MaxDR: uint8(ch.max)})
			})
		}
		rx1f, err := b.GetRX1FrequencyForUplinkFrequency(ch.freq)
		if err == nil {
			c15Encodable(c, cfg, "DLChannelReq", "RX1 frequency", func() (interface{}, interface{}, error) {
				return roundTripMAC(&lorawan.DLChannelReqPayload{ChIndex: uint8(i), Freq: rx1f})
			})
		}
		for dr := ch.min; dr <= ch.max; dr++ {
			for off := 0; off <= 7; off++ {
				rx1, err := b.GetRX1DataRateIndex(dr, off)
				if err != nil {
					continue
				}
				c15Encodable(c, cfg, "RXParamSetupReq", "RX1 offset / DR", func() (interface{}, interface{}, error) {
					return roundTripMAC(&lorawan.RXParamSetupReqPayload{Frequency: d.RX2Frequency, DLSettings: lorawan.DLSettings{RX2DataRate: uint8(rx1), RX1DROffset: uint8(off)}})
				})
			}
		}
	}
	for i, ch := range down {
		if i > 10 && i%9 != 0 {
			continue
		}
		i, ch := i, ch
		c15Encodable(c, cfg, "DLChannelReq", "downlink channel", func() (interface{}, interface{}, error) {
			return roundTripMAC(&lorawan.DLChannelReqPayload{ChIndex: uint8(i), Freq: ch.freq})
		})
		c15Encodable(c, cfg, "PingSlotChannelReq", "downlink channel", func() (interface{}, interface{}, error) {
			return roundTripMAC(&lorawan.PingSlotChannelReqPayload{Frequency: ch.freq, DR: uint8(ch.min)})
		})
	}
}

func runC15(c *core.Ctx) {
	cfgs := allBandCfgs()
	hists := c.N(40, 10000)
	for ci, cfg := range cfgs {
		for h := int64(0); h < hists; h++ {
			idx := int64(ci)<<24 | h
			if !c.Mine("history", idx) {
				continue
			}
			r := c.RNG("history", idx)
			b, err := cfg.New()
			if err != nil {
				continue
			}
			reg := spec.Regions[cfg.Name]
			var up, down []chModel
			for _, ch := range reg.Uplink {
				up = append(up, chModel{ch.Freq, ch.MinDR, ch.MaxDR, true, false})
			}
			for _, ch := range reg.Downlink {
				down = append(down, chModel{ch.Freq, ch.MinDR, ch.MaxDR, true, false})
			}
			// the library's default MaxDR may include LR-FHSS data-rates: take the ranges from the band itself once
			for i := range up {
				if ch, err := b.GetUplinkChannel(i); err == nil {
					up[i].min, up[i].max = ch.MinDR, ch.MaxDR
				}
			}
			var trace []string
			if !c15Compare(c, cfg, b, up, down, reg, trace) {
				continue
			}
			steps := 3 + r.Intn(28)
			if h%7 == 3 {
				steps = 60 + r.Intn(120) // long histories: plans that outgrow 16, 64 and 72 entries
			}
			step := uint32(100)
			if cfg.Name == "ISM2400" {
				step = 200
			}
			weird := []int{-1, -2, math.MinInt32, math.MaxInt32, math.MaxInt - 1, math.MinInt + 2, math.MaxInt/2 + 1} // (word-size independent spelling: the harness also runs as a 32-bit binary)
			good := true
			for s := 0; s < steps && good; s++ {
				kind := ""
				switch r.Intn(3) {
				case 0:
					f := reg.Uplink[0].Freq - reg.Uplink[0].Freq%step + uint32(r.Intn(40000))*step
					if cfg.Name != "ISM2400" && r.Chance(1, 6) {
						// an operator may add any frequency the 24-bit, 100 Hz-unit fields of CFList / DLChannelReq can carry
						f = uint32(r.Range(1000000, 1<<24-1)) * 100
					}
					min, max := r.Intn(3), 3+r.Intn(5)
					if r.Chance(1, 2) {
						min, max = reg.CFListMinDR, reg.CFListMaxDR
					}
					if r.Chance(1, 12) {
						// a placeholder slot (frequency 0 = unused) is a custom channel like any other for the index
						// sets; it gets a data-rate range outside the CFList one, so that what a CFList should say
						// about an unused slot is not part of what is judged here
						f, min, max = 0, 1, 2
					}
					if len(up) > 0 && r.Chance(1, 6) {
						// exactly a channel the plan already has (enabled or not): a second entry, like any other AddChannel
						k := up[r.Intn(len(up))]
						f, min, max = k.freq, k.min, k.max
					}
					var err error
					c.Eval(1)
					if p, msg := core.Guard(func() { err = b.AddChannel(f, min, max) }); p {
						c.Violate("C15|"+cfg.Name+"|panic|AddChannel", "%s", short(msg, 200))
						good = false
						break
					}
					trace = append(trace, fmt.Sprintf("AddChannel(%d,%d,%d)=%v", f, min, max, err != nil))
					if reg.ExtraChannels {
						// an ordinary addition - a new frequency near the band's own channels with data-rates of the
						// band - is what "any sequence of channel additions" is about, and refusing it would leave
						// nothing to check; a placeholder (0), a frequency far from the band or one the plan has
						// already may be refused by a stricter AddChannel: the plan then simply does not grow
						plain := f != 0 && f >= reg.Uplink[0].Freq-reg.Uplink[0].Freq%step && f <= reg.Uplink[0].Freq+40000*step
						for _, k := range up {
							if k.freq == f {
								plain = false
							}
						}
						if err != nil && !plain {
							c.Count("addchannel.exotic-refused", 1)
						} else if err != nil {
							c.Violate("C15|"+cfg.Name+"|addchannel-refused", "%v", err)
						} else if dup := func() bool {
							for _, k := range up {
								if k.custom && k.freq == f && k.min == min && k.max == max {
									return true
								}
							}
							return false
						}(); dup && len(b.GetUplinkChannelIndices()) == len(up) {
							// the plan has exactly this custom channel already and did not grow: an AddChannel that is
							// idempotent for exact duplicates (the library appends a second entry; both keep the plan
							// consistent, which is all the property asks)
							c.Count("addchannel.duplicate-folded", 1)
						} else {
							// a placeholder slot (frequency 0) starts out disabled, everything else enabled
							up = append(up, chModel{f, min, max, f != 0, true})
							down = append(down, chModel{f, min, max, f != 0, true})
						}
						kind = "add"
					} else {
						if err == nil {
							// the library refuses extra channels on the fixed plans; the property does not ask
							// for that. The model of this history has no such channel, so it ends here
							c.Count("histories-ended.fixed-plan-accepted-addchannel", 1)
							good = false
						}
						kind = "add-unsupported"
					}
				default:
					if len(up) > 16 && r.Chance(1, 8) {
						// a whole 16-channel block switched off or on (sub-band style plans: several adjacent
						// blocks end up empty, which is what the channel-mask CFList then has to say)
						blk, on := r.Intn((len(up)+15)/16), r.Chance(1, 4)
						for k := blk * 16; k < blk*16+16 && k < len(up); k++ {
							if on {
								b.EnableUplinkChannelIndex(k)
							} else {
								b.DisableUplinkChannelIndex(k)
							}
							up[k].enabled = on
						}
						trace = append(trace, fmt.Sprintf("block(%d)=%v", blk, on))
						kind = "block"
						break
					}
					enable := r.Bool()
					var i int
					cls := "valid"
					switch r.Intn(5) {
					case 0:
						i = weird[r.Intn(len(weird))]
						cls = "weird"
					case 1:
						i = len(up) + r.Intn(2)
						cls = "past-end"
					default:
						i = r.Intn(len(up))
					}
					var err error
					name := "DisableUplinkChannelIndex"
					if enable {
						name = "EnableUplinkChannelIndex"
					}
					c.Eval(1)
					if p, msg := core.Guard(func() {
						if enable {
							err = b.EnableUplinkChannelIndex(i)
						} else {
							err = b.DisableUplinkChannelIndex(i)
						}
					}); p {
						c.Violate("C15|"+cfg.Name+"|panic|"+name, "%s(%d) with %d channels panics: %s", name, i, len(up), short(msg, 200))
						good = false
						break
					}
					trace = append(trace, fmt.Sprintf("%s(%d)=%v", name[:3], i, err != nil))
					if i < 0 || i >= len(up) {
						if err == nil {
							c.Violate("C15|"+cfg.Name+"|invalid-accepted|"+name, "%s(%d) with %d channels accepted", name, i, len(up))
						}
					} else if err != nil {
						c.Violate("C15|"+cfg.Name+"|valid-refused|"+name, "%s(%d): %v", name, i, err)
					} else {
						up[i].enabled = enable
					}
					kind = name[:3] + "-" + cls
				}
				if !good {
					break
				}
				if !c15Compare(c, cfg, b, up, down, reg, trace) {
					good = false
				}
				c.Shape("op", cfg.Name, kind)
			}
			// TX power offsets incl. invalid indices
			for i := -2; i <= 20; i++ {
				var off int
				var err error
				c.Eval(1)
				if p, msg := core.Guard(func() { off, err = b.GetTXPowerOffset(i) }); p {
					c.Violate("C15|"+cfg.Name+"|panic|GetTXPowerOffset", "GetTXPowerOffset(%d) panics: %s", i, short(msg, 200))
				} else if i >= 0 && err == nil && off != -2*i { // a negative TX-power index is outside the properties: no panic is all
					c.Violate("C15|"+cfg.Name+"|txpower", "GetTXPowerOffset(%d) = %d", i, off)
				}
			}
			// index lists handed to the LinkADRReq planner: a device may report channels the plan does not
			// have (any more), and a caller may pass nonsense; no panic, and what comes back is encodable
			for k := 0; k < 3; k++ {
				var dev []int
				for i := range up {
					if r.Bool() {
						dev = append(dev, i)
					}
				}
				cls := "past-end"
				switch k {
				case 0:
					// stale indices inside the last 16-channel block of the plan: the planner switches them off
					if room := (len(up)+15)/16*16 - len(up); room > 0 {
						dev = append(dev, len(up)+r.Intn(room), len(up)+r.Intn(room))
					}
				case 1:
					dev = append(dev, -1-r.Intn(3))
					cls = "negative"
				default:
					dev = append(dev, weird[r.Intn(len(weird))])
					cls = "weird"
				}
				var pls []lorawan.LinkADRReqPayload
				c.Eval(1)
				if p, msg := core.Guard(func() { pls = b.GetLinkADRReqPayloadsForEnabledUplinkChannelIndices(dev) }); p {
					c.Violate("C15|"+cfg.Name+"|panic|GetLinkADRReqPayloadsForEnabledUplinkChannelIndices|"+cls, "device channel list %v with %d channels in the plan panics: %s", dev, len(up), short(msg, 200))
					continue
				}
				if cls == "past-end" { // for nonsense indices (negative, huge) only "no panic" is asked
					for _, pl := range pls {
						pl := pl
						c15Encodable(c, cfg, "LinkADRReq", "planner("+cls+" device index)", func() (interface{}, interface{}, error) { return roundTripMAC(&pl) })
					}
				}
				c.Shape("planner-index-class", cfg.Name, cls)
			}
			if good && h%4 == 0 {
				c15Outputs(c, cfg, b, up, down)
			}
			if c.WantSample("history") && len(trace) > 4 {
				c.Sample("history", map[string]interface{}{"band": cfg.String(), "operations": trace})
			}
		}
	}
	_ = sort.Ints
}
