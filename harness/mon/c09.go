package mon

import (
	"bytes"
	"encoding/base64"
	"encoding/json"
	"fmt"
	"reflect"
	"runtime"
	"runtime/debug"
	"strings"
	"sync"
	"sync/atomic"
	"time"

	"github.com/brocaar/lorawan"
	"github.com/brocaar/lorawan/applayer/clocksync"
	"github.com/brocaar/lorawan/applayer/firmwaremanagement"
	"github.com/brocaar/lorawan/applayer/fragmentation"
	"github.com/brocaar/lorawan/applayer/multicastsetup"
	"github.com/brocaar/lorawan/backend"

	"lwverif/core"
	"lwverif/spec"
)

func init() {
	core.Register(&core.Property{
		ID:          "C09",
		Rule:        "every decoding entry point (frame binary/base64, MACPayload/FHDR/FCtrl/MHDR, FOpts and FRMPayload MAC decode in both directions, decrypt-then-decode with random keys, join-accept decrypt, CFList and its two payloads, join/rejoin payloads, MACCommand for every CID and every MAC payload type, text/Scan of the identifier types and DLSettings, Command/Commands of the four application-layer packages and every application-layer payload type, json.Unmarshal into the backend payload structs and scalar types) is called under recover() on byte strings of length 0..512: uniform random, 0x00/0xFF/0x80 patterns, mutated valid encodings, length-field attacks with every truncation, and for JSON valid documents with mutated scalars, wrong types, deep nesting and huge numbers. The input is a sub-slice of a canary-filled buffer that is compared afterwards. Hangs are caught by a per-case watchdog (a case that does not finish is re-run alone; only a second miss is a violation). Distinct = (entry point, input kind, length class, accepted?).",
		Assumptions: []string{"'time linear in the input' is observed in two ways: every call on <= 512 bytes returns (per-case watchdog; slowest call recorded in the evidence), and for every entry point the allocation and the fastest-of-three time on 128 KiB inputs are compared with those on 4 KiB inputs of the same family (32x; quadratic work would give 1024x): more than 256x the allocation, or more than 400x the time in three independent repeats, is super-linear; a ratio exceeded only once is timing noise and not judged"},
		MinEvals:    1000,
		Run:         runC09,
	})
}

type c09Entry struct {
	name string
	call func(r *core.RNG, b []byte) error
	text bool // input is text rather than binary
	json bool
}

func appCmdEntries() []c09Entry {
	var out []c09Entry
	for _, up := range []bool{true, false} {
		up := up
		d := "down"
		if up {
			d = "up"
		}
		out = append(out,
			c09Entry{name: "clocksync.Command/" + d, call: func(r *core.RNG, b []byte) error { var c clocksync.Command; return c.UnmarshalBinary(up, b) }},
			c09Entry{name: "clocksync.Commands/" + d, call: func(r *core.RNG, b []byte) error { var c clocksync.Commands; return c.UnmarshalBinary(up, b) }},
			c09Entry{name: "multicastsetup.Command/" + d, call: func(r *core.RNG, b []byte) error { var c multicastsetup.Command; return c.UnmarshalBinary(up, b) }},
			c09Entry{name: "multicastsetup.Commands/" + d, call: func(r *core.RNG, b []byte) error { var c multicastsetup.Commands; return c.UnmarshalBinary(up, b) }},
			c09Entry{name: "fragmentation.Command/" + d, call: func(r *core.RNG, b []byte) error { var c fragmentation.Command; return c.UnmarshalBinary(up, b) }},
			c09Entry{name: "fragmentation.Commands/" + d, call: func(r *core.RNG, b []byte) error { var c fragmentation.Commands; return c.UnmarshalBinary(up, b) }},
			c09Entry{name: "firmwaremanagement.Command/" + d, call: func(r *core.RNG, b []byte) error { var c firmwaremanagement.Command; return c.UnmarshalBinary(up, b) }},
			c09Entry{name: "firmwaremanagement.Commands/" + d, call: func(r *core.RNG, b []byte) error { var c firmwaremanagement.Commands; return c.UnmarshalBinary(up, b) }},
		)
		for cid := 0; cid < 10; cid++ {
			cid := cid
			if p, err := clocksync.GetCommandPayload(up, clocksync.CID(cid)); err == nil {
				t := reflect.TypeOf(p).Elem()
				out = append(out, c09Entry{name: "clocksync." + t.Name(), call: func(r *core.RNG, b []byte) error {
					return reflect.New(t).Interface().(clocksync.CommandPayload).UnmarshalBinary(b)
				}})
			}
			if p, err := multicastsetup.GetCommandPayload(up, multicastsetup.CID(cid)); err == nil {
				t := reflect.TypeOf(p).Elem()
				out = append(out, c09Entry{name: "multicastsetup." + t.Name(), call: func(r *core.RNG, b []byte) error {
					return reflect.New(t).Interface().(multicastsetup.CommandPayload).UnmarshalBinary(b)
				}})
			}
			if p, err := fragmentation.GetCommandPayload(up, fragmentation.CID(cid)); err == nil {
				t := reflect.TypeOf(p).Elem()
				out = append(out, c09Entry{name: "fragmentation." + t.Name(), call: func(r *core.RNG, b []byte) error {
					return reflect.New(t).Interface().(fragmentation.CommandPayload).UnmarshalBinary(b)
				}})
			}
			if p, err := firmwaremanagement.GetCommandPayload(up, firmwaremanagement.CID(cid)); err == nil {
				t := reflect.TypeOf(p).Elem()
				out = append(out, c09Entry{name: "firmwaremanagement." + t.Name(), call: func(r *core.RNG, b []byte) error {
					return reflect.New(t).Interface().(firmwaremanagement.CommandPayload).UnmarshalBinary(b)
				}})
			}
		}
	}
	return out
}

func c09Entries() []c09Entry {
	out := []c09Entry{
		{name: "PHYPayload.UnmarshalBinary", call: func(r *core.RNG, b []byte) error { var p lorawan.PHYPayload; return p.UnmarshalBinary(b) }},
		{name: "PHYPayload.UnmarshalText(base64)", call: func(r *core.RNG, b []byte) error {
			var p lorawan.PHYPayload
			return p.UnmarshalText([]byte(base64.StdEncoding.EncodeToString(b)))
		}},
		{name: "PHYPayload.UnmarshalBinary(target in use)", call: func(r *core.RNG, b []byte) error {
			// the target is not a zero value: it holds what an earlier use (or a caller's template) left there,
			// including interface fields that hold typed nil pointers
			var mp lorawan.Payload
			switch len(b) % 6 {
			case 0:
				mp = (*lorawan.DataPayload)(nil)
			case 1:
				mp = (*lorawan.MACPayload)(nil)
			case 2:
				mp = (*lorawan.JoinAcceptPayload)(nil)
			case 3:
				mp = &lorawan.DataPayload{Bytes: []byte{1, 2, 3}}
			case 4:
				mp = &lorawan.MACPayload{FPort: new(uint8), FRMPayload: []lorawan.Payload{(*lorawan.DataPayload)(nil)}}
			default:
				mp = &userPayload{}
			}
			p := lorawan.PHYPayload{MHDR: lorawan.MHDR{MType: lorawan.Proprietary}, MACPayload: mp}
			if len(b)%2 == 0 {
				return p.UnmarshalBinary(b)
			}
			return p.UnmarshalText([]byte(base64.StdEncoding.EncodeToString(b)))
		}},
		{name: "PHYPayload.UnmarshalText(raw)", text: true, call: func(r *core.RNG, b []byte) error { var p lorawan.PHYPayload; return p.UnmarshalText(b) }},
		{name: "MHDR", call: func(r *core.RNG, b []byte) error { var h lorawan.MHDR; return h.UnmarshalBinary(b) }},
		{name: "FCtrl", call: func(r *core.RNG, b []byte) error { var h lorawan.FCtrl; return h.UnmarshalBinary(b) }},
		{name: "CFList", call: func(r *core.RNG, b []byte) error { var h lorawan.CFList; return h.UnmarshalBinary(b) }},
		{name: "CFListChannelPayload", call: func(r *core.RNG, b []byte) error {
			var h lorawan.CFListChannelPayload
			return h.UnmarshalBinary(false, b)
		}},
		{name: "CFListChannelMaskPayload", call: func(r *core.RNG, b []byte) error {
			var h lorawan.CFListChannelMaskPayload
			return h.UnmarshalBinary(false, b)
		}},
		{name: "JoinAcceptPayload", call: func(r *core.RNG, b []byte) error { var h lorawan.JoinAcceptPayload; return h.UnmarshalBinary(false, b) }},
		{name: "JoinRequestPayload", call: func(r *core.RNG, b []byte) error { var h lorawan.JoinRequestPayload; return h.UnmarshalBinary(true, b) }},
		{name: "RejoinRequestType02Payload", call: func(r *core.RNG, b []byte) error {
			var h lorawan.RejoinRequestType02Payload
			return h.UnmarshalBinary(true, b)
		}},
		{name: "RejoinRequestType1Payload", call: func(r *core.RNG, b []byte) error {
			var h lorawan.RejoinRequestType1Payload
			return h.UnmarshalBinary(true, b)
		}},
		{name: "DataPayload", call: func(r *core.RNG, b []byte) error { var h lorawan.DataPayload; return h.UnmarshalBinary(true, b) }},
		{name: "EUI64.UnmarshalBinary", call: func(r *core.RNG, b []byte) error { var h lorawan.EUI64; return h.UnmarshalBinary(b) }},
		{name: "DevAddr.UnmarshalBinary", call: func(r *core.RNG, b []byte) error { var h lorawan.DevAddr; return h.UnmarshalBinary(b) }},
		{name: "NetID.UnmarshalBinary", call: func(r *core.RNG, b []byte) error { var h lorawan.NetID; return h.UnmarshalBinary(b) }},
		{name: "AES128Key.UnmarshalBinary", call: func(r *core.RNG, b []byte) error { var h lorawan.AES128Key; return h.UnmarshalBinary(b) }},
		{name: "DevNonce", call: func(r *core.RNG, b []byte) error { var h lorawan.DevNonce; return h.UnmarshalBinary(b) }},
		{name: "JoinNonce", call: func(r *core.RNG, b []byte) error { var h lorawan.JoinNonce; return h.UnmarshalBinary(b) }},
		{name: "EUI64.UnmarshalText", text: true, call: func(r *core.RNG, b []byte) error { var h lorawan.EUI64; return h.UnmarshalText(b) }},
		{name: "DevAddr.UnmarshalText", text: true, call: func(r *core.RNG, b []byte) error { var h lorawan.DevAddr; return h.UnmarshalText(b) }},
		{name: "NetID.UnmarshalText", text: true, call: func(r *core.RNG, b []byte) error { var h lorawan.NetID; return h.UnmarshalText(b) }},
		{name: "AES128Key.UnmarshalText", text: true, call: func(r *core.RNG, b []byte) error { var h lorawan.AES128Key; return h.UnmarshalText(b) }},
		{name: "DLSettings.UnmarshalText", text: true, call: func(r *core.RNG, b []byte) error { var h lorawan.DLSettings; return h.UnmarshalText(b) }},
		{name: "EUI64.Scan", call: func(r *core.RNG, b []byte) error { var h lorawan.EUI64; return h.Scan(b) }},
		{name: "DevAddr.Scan", call: func(r *core.RNG, b []byte) error { var h lorawan.DevAddr; return h.Scan(b) }},
		{name: "NetID.Scan", call: func(r *core.RNG, b []byte) error { var h lorawan.NetID; return h.Scan(b) }},
		{name: "AES128Key.Scan", call: func(r *core.RNG, b []byte) error { var h lorawan.AES128Key; return h.Scan(b) }},
		{name: "HEXBytes.UnmarshalText", text: true, call: func(r *core.RNG, b []byte) error { var h backend.HEXBytes; return h.UnmarshalText(b) }},
		{name: "ISO8601Time.UnmarshalText", text: true, call: func(r *core.RNG, b []byte) error { var h backend.ISO8601Time; return h.UnmarshalText(b) }},
		{name: "Frequency.UnmarshalJSON", text: true, call: func(r *core.RNG, b []byte) error { var h backend.Frequency; return h.UnmarshalJSON(b) }},
		{name: "Percentage.UnmarshalJSON", text: true, call: func(r *core.RNG, b []byte) error { var h backend.Percentage; return h.UnmarshalJSON(b) }},
		{name: "KeyEnvelope.Unwrap", call: func(r *core.RNG, b []byte) error {
			if len(b) > 0 && b[0]%4 == 0 {
				// a *valid* RFC 3394 wrapping (under the all-zero KEK used below) of a key that is not 16 bytes long
				n := []int{16, 24, 32, 40, 8}[int(b[0]/4)%5]
				pt := make([]byte, n)
				copy(pt, b)
				if w, err := spec.KeyWrap(make([]byte, 16), pt); err == nil {
					b = w
				}
			}
			env := backend.KeyEnvelope{KEKLabel: "x", AESKey: backend.HEXBytes(b)}
			_, err := env.Unwrap(make([]byte, 16))
			return err
		}},
	}
	for _, up := range []bool{true, false} {
		up := up
		d := "down"
		if up {
			d = "up"
		}
		out = append(out,
			c09Entry{name: "MACPayload/" + d, call: func(r *core.RNG, b []byte) error { var h lorawan.MACPayload; return h.UnmarshalBinary(up, b) }},
			c09Entry{name: "FHDR/" + d, call: func(r *core.RNG, b []byte) error { var h lorawan.FHDR; return h.UnmarshalBinary(up, b) }},
			c09Entry{name: "MACCommand/" + d, call: func(r *core.RNG, b []byte) error { var h lorawan.MACCommand; return h.UnmarshalBinary(up, b) }},
			c09Entry{name: "DecodeFOptsToMACCommands/" + d, call: func(r *core.RNG, b []byte) error {
				phy := frameOf(up, nil, -1, nil)
				phy.MACPayload.(*lorawan.MACPayload).FHDR.FOpts = []lorawan.Payload{&lorawan.DataPayload{Bytes: b}}
				return phy.DecodeFOptsToMACCommands()
			}},
			c09Entry{name: "DecodeFRMPayloadToMACCommands/" + d, call: func(r *core.RNG, b []byte) error {
				phy := frameOf(up, nil, 0, nil)
				phy.MACPayload.(*lorawan.MACPayload).FRMPayload = []lorawan.Payload{&lorawan.DataPayload{Bytes: b}}
				return phy.DecodeFRMPayloadToMACCommands()
			}},
		)
		for cid, ctor := range macCtor[up] {
			ctor := ctor
			out = append(out, c09Entry{name: fmt.Sprintf("macpayload/%s/%T", d, ctor()), call: func(r *core.RNG, b []byte) error { return ctor().UnmarshalBinary(b) }})
			_ = cid
		}
	}
	out = append(out,
		c09Entry{name: "ProprietaryMACCommandPayload", call: func(r *core.RNG, b []byte) error {
			var h lorawan.ProprietaryMACCommandPayload
			return h.UnmarshalBinary(b)
		}},
		c09Entry{name: "decode+DecryptFRMPayload", call: func(r *core.RNG, b []byte) error {
			var p lorawan.PHYPayload
			if err := p.UnmarshalBinary(b); err != nil {
				return err
			}
			return p.DecryptFRMPayload(lorawan.AES128Key(key16(r)))
		}},
		c09Entry{name: "decode+DecryptFOpts", call: func(r *core.RNG, b []byte) error {
			var p lorawan.PHYPayload
			if err := p.UnmarshalBinary(b); err != nil {
				return err
			}
			return p.DecryptFOpts(lorawan.AES128Key(key16(r)))
		}},
		c09Entry{name: "decode+DecodeFOpts+DecodeFRMPayload", call: func(r *core.RNG, b []byte) error {
			var p lorawan.PHYPayload
			if err := p.UnmarshalBinary(b); err != nil {
				return err
			}
			e1 := p.DecodeFOptsToMACCommands()
			e2 := p.DecodeFRMPayloadToMACCommands()
			if e1 != nil {
				return e1
			}
			return e2
		}},
		c09Entry{name: "decode+DecryptJoinAcceptPayload", call: func(r *core.RNG, b []byte) error {
			var p lorawan.PHYPayload
			if err := p.UnmarshalBinary(b); err != nil {
				return err
			}
			return p.DecryptJoinAcceptPayload(lorawan.AES128Key(key16(r)))
		}},
		c09Entry{name: "decode+ValidateMICs", call: func(r *core.RNG, b []byte) error {
			var p lorawan.PHYPayload
			if err := p.UnmarshalBinary(b); err != nil {
				return err
			}
			k := lorawan.AES128Key(key16(r))
			p.ValidateUplinkDataMIC(lorawan.LoRaWAN1_1, 1, 2, 3, k, k)
			p.ValidateDownlinkDataMIC(lorawan.LoRaWAN1_1, 1, k)
			p.ValidateUplinkJoinMIC(k)
			p.ValidateDownlinkJoinMIC(lorawan.JoinRequestType, lorawan.EUI64{}, 1, k)
			p.ValidateUplinkDataMICF(k)
			_, err := p.MarshalText()
			return err
		}},
	)
	out = append(out, appCmdEntries()...)
	for i, mk := range c17Structs {
		mk := mk
		out = append(out, c09Entry{name: fmt.Sprintf("json/%s", reflect.TypeOf(c17Structs[i]()).Elem().Name()), json: true, text: true,
			call: func(r *core.RNG, b []byte) error { return json.Unmarshal(b, mk()) }})
	}
	return out
}

var c09TextAlphabet = []byte("0123456789abcdefABCDEFxX+-/=.:TZ \t\"{}[],eE")

func c09TextInput(r *core.RNG, ln int) []byte {
	switch r.Intn(9) {
	case 8:
		// text files and some HTTP peers put a byte-order mark or other invisible bytes in front
		pre := []string{"\xef\xbb\xbf", "\xef\xbb\xbf0", "\xef\xbb\xbf0x", "\xfe\xff", "\xef\xbb", " ", "\t", "\n", "\x00"}[r.Intn(9)]
		b := make([]byte, r.Intn(ln+1))
		for i := range b {
			b[i] = "0123456789abcdefABCDEF"[r.Intn(22)]
		}
		if r.Bool() {
			return append([]byte(pre), b...)
		}
		return append(b, pre...)
	case 6, 7:
		// timestamps as peers write them, including the forms only some parsers take: the inserted leap
		// second 23:59:60, seconds / minutes / hours / days one past their range, fractions of 1..12
		// digits, lower-case designators, a space for the T, offsets with and without colon
		pick := func(xs ...string) string { return xs[r.Intn(len(xs))] }
		var sb strings.Builder
		sb.WriteString(pick("2016-12-31", "2015-06-30", "2012-06-30", "1980-01-06", "2020-02-29", "2021-02-29", "2019-13-01", "2019-00-10", "2019-04-31", "9999-12-31", "0000-01-01", "2016-12-32"))
		sb.WriteString(pick("T", "T", "T", "t", " "))
		sb.WriteString(pick("23:59:60", "23:59:59", "00:00:00", "23:59:61", "24:00:00", "12:60:00", "01:59:60", "23:59:6", "7:05:09"))
		if r.Chance(1, 3) {
			sb.WriteByte('.')
			for k := 1 + r.Intn(12); k > 0; k-- {
				sb.WriteByte(byte('0' + r.Intn(10)))
			}
		}
		sb.WriteString(pick("Z", "Z", "z", "+00:00", "-00:00", "+02:00", "+14:00", "-12:00", "+0200", "+02", "", "+24:00", "+02:60"))
		return []byte(sb.String())
	case 0:
		return r.Bytes(ln)
	case 1:
		b := make([]byte, ln)
		for i := range b {
			b[i] = "0123456789abcdef"[r.Intn(16)]
		}
		if r.Bool() && ln >= 2 {
			b[0], b[1] = '0', 'x'
		}
		return b
	case 2:
		return []byte(time.Unix(int64(r.U32()), 0).UTC().Format(time.RFC3339))[:min(ln, 20)]
	case 3:
		return []byte(strings.Repeat("9", ln))
	case 4:
		return []byte(base64.StdEncoding.EncodeToString(r.Bytes(ln * 3 / 4)))
	}
	b := make([]byte, ln)
	for i := range b {
		b[i] = c09TextAlphabet[r.Intn(len(c09TextAlphabet))]
	}
	return b
}

func min(a, b int) int {
	if a < b {
		return a
	}
	return b
}

// c09JSONInput produces documents around the valid encoding of a struct.
// c09Scalar is JSON scalar text in the forms a peer may legally (or almost legally) write:
// integers and decimals with 0..18 fraction digits, exponents, signs, leading zeros,
// and strings holding hex / timestamps / numbers.
func c09Scalar(r *core.RNG) string {
	switch r.Intn(8) {
	case 0:
		return "\"" + string(c09TextInput(r, r.Intn(40))) + "\""
	case 1:
		return []string{"null", "true", "false", "[]", "{}", "\"\"", "1e999", "-0", "0.0", "1E+2", "18446744073709551616", "4294967296", "4294.967296", "-1e-400"}[r.Intn(14)]
	}
	var sb strings.Builder
	if r.Chance(1, 6) {
		sb.WriteByte('-')
	}
	sb.WriteString([]string{"0", "1", "868", "4294", "2400", "100", "00", "123456789012", "9"}[r.Intn(9)])
	if n := r.Intn(20); n > 0 && r.Chance(4, 5) {
		sb.WriteByte('.')
		for i := 0; i < n; i++ {
			sb.WriteByte(byte('0' + r.Intn(10)))
		}
	}
	if r.Chance(1, 5) {
		sb.WriteString([]string{"e0", "e3", "E-3", "e+10", "e-7", "e6", "E", "e"}[r.Intn(8)])
	}
	return sb.String()
}

func c09JSONInput(r *core.RNG, k int) []byte {
	v := c17Structs[k%len(c17Structs)]()
	var pat strings.Builder
	fillRandom(r, reflect.ValueOf(v).Elem(), &pat)
	doc, err := json.Marshal(v)
	if err != nil {
		doc = []byte("{}")
	}
	switch r.Intn(12) {
	case 10, 11:
		// a bare scalar (the scalar types), or one scalar of the document replaced by it
		sc := c09Scalar(r)
		if r.Bool() {
			return []byte(sc)
		}
		str := string(doc)
		var idx []int
		for i := 0; i+1 < len(str); i++ {
			if str[i] == ':' && (str[i+1] >= '0' && str[i+1] <= '9' || str[i+1] == '"' || str[i+1] == '-') {
				idx = append(idx, i+1)
			}
		}
		if len(idx) == 0 {
			return []byte(sc)
		}
		st := idx[r.Intn(len(idx))]
		en := st + 1
		if str[st] == '"' {
			for en < len(str) && str[en] != '"' {
				if str[en] == '\\' {
					en++
				}
				en++
			}
			en++
		} else {
			for en < len(str) && str[en] != ',' && str[en] != '}' && str[en] != ']' {
				en++
			}
		}
		if en > len(str) {
			en = len(str)
		}
		return []byte(str[:st] + sc + str[en:])
	case 0:
		return doc
	case 1:
		return doc[:r.Intn(len(doc)+1)]
	case 2: // replace a scalar by another type
		s := string(doc)
		repl := []string{"123", "\"abc\"", "null", "true", "[]", "{}", "1e999", "-1", "1.5", "\"0x\"", "\"zz\"", "18446744073709551616", "\"2020-13-45T99:99:99Z\""}[r.Intn(13)]
		// find a random value start (after a colon)
		var idx []int
		for i := 0; i < len(s); i++ {
			if s[i] == ':' {
				idx = append(idx, i+1)
			}
		}
		if len(idx) == 0 {
			return []byte(repl)
		}
		st := idx[r.Intn(len(idx))]
		en := st
		depth := 0
		inStr := false
		for en < len(s) {
			ch := s[en]
			if inStr {
				if ch == '\\' {
					en++
				} else if ch == '"' {
					inStr = false
				}
			} else if ch == '"' {
				inStr = true
			} else if ch == '{' || ch == '[' {
				depth++
			} else if ch == '}' || ch == ']' {
				if depth == 0 {
					break
				}
				depth--
			} else if ch == ',' && depth == 0 {
				break
			}
			en++
		}
		return []byte(s[:st] + repl + s[en:])
	case 3:
		return []byte(strings.Repeat("[", 50+r.Intn(400)) + strings.Repeat("]", r.Intn(400)))
	case 4:
		return []byte(strings.Repeat("{\"a\":", 50+r.Intn(100)) + "1" + strings.Repeat("}", 150))
	case 5:
		return r.Bytes(r.Intn(200))
	case 6:
		b := append([]byte{}, doc...)
		for k := 1 + r.Intn(3); k > 0 && len(b) > 0; k-- {
			b[r.Intn(len(b))] = c09TextAlphabet[r.Intn(len(c09TextAlphabet))]
		}
		return b
	case 7:
		return []byte(`{"PHYPayload":"` + strings.Repeat("a", r.Intn(513)) + `","DevEUI":"` + strings.Repeat("0", r.Intn(40)) + `","RecvTime":"` + string(c09TextInput(r, 20)) + `","DLSettings":"` + string(c09TextInput(r, r.Intn(6))) + `"}`)
	case 8:
		return []byte(`{"ULMetaData":{"RecvTime":12,"GWInfo":[{"ID":5}],"DevEUI":[1,2]},"DeviceProfile":{"PingSlotFreq":"x","MaxDutyCycle":{}},"TargetPER":1e400,"RXFreq2":-1e30}`)
	}
	return []byte("null")
}

func c09Binary(r *core.RNG, e c09Entry, k int64) ([]byte, string) {
	switch k % 8 {
	case 0:
		return r.Bytes(r.Intn(513)), "uniform"
	case 1:
		ln := r.Intn(513)
		return bytes.Repeat([]byte{[]byte{0x00, 0xff, 0x80, 0x7f, 0x0f}[r.Intn(5)]}, ln), "pattern"
	case 2:
		return r.Bytes(r.Intn(34)), "short"
	case 3, 4: // mutated valid frame
		b := validFrameBytes(r, r.Intn(8))
		switch r.Intn(5) {
		case 0:
			b = b[:r.Intn(len(b)+1)]
		case 1:
			flipBit(b, r)
		case 2:
			if len(b) > 5 {
				b[5] = b[5]&0xf0 | byte(r.Intn(16))
			}
		case 3:
			b = append(b, r.Bytes(r.Intn(20))...)
		}
		return b, "mutated-frame"
	case 5: // MAC command stream with truncation
		up := r.Bool()
		_, b := genMACStream(r, up, 1+r.Intn(60), false)
		if len(b) > 0 {
			b = b[:1+r.Intn(len(b))]
		}
		if r.Bool() {
			b = append([]byte{byte(r.Intn(256))}, b...)
		}
		return b, "mac-stream"
	case 6: // application-layer length-field attacks: first bytes select CID / status / mask, every truncation
		b := r.Bytes(1 + r.Intn(40))
		b[0] = byte(r.Intn(10))
		if len(b) > 1 {
			b[1] = []byte{0x0f, 0x1f, 0xff, 0x03, 0x00, 0x01, 0x07, 0x70}[r.Intn(8)]
		}
		return b[:1+r.Intn(len(b))], "length-attack"
	}
	// exact sizes the fixed-layout decoders expect, +-1
	sz := []int{1, 2, 3, 4, 5, 8, 10, 12, 14, 15, 16, 18, 19, 28, 29, 30}[r.Intn(16)] + r.Intn(3) - 1
	if sz < 0 {
		sz = 0
	}
	return r.Bytes(sz), "sized"
}

// c09FirstCalls: the first crypto-touching decoder calls of a fresh worker
// process use the all-zero key (even batches) or a random key then the zero key.
func c09FirstCalls(c *core.Ctx) {
	if !c.Mine("first-calls", int64(c.Batch)) {
		return
	}
	r := c.RNG("first-calls", int64(c.Batch))
	var zero, other lorawan.AES128Key
	r.Fill(other[:])
	keys := []lorawan.AES128Key{zero, other, zero}
	if c.Batch%2 == 1 {
		keys = []lorawan.AES128Key{other, zero, other}
	}
	for step, k := range keys {
		for mt := 0; mt < 8; mt++ {
			wire := validFrameBytes(r, mt)
			calls := map[string]func(p *lorawan.PHYPayload) error{
				"DecryptFRMPayload":        func(p *lorawan.PHYPayload) error { return p.DecryptFRMPayload(k) },
				"DecryptFOpts":             func(p *lorawan.PHYPayload) error { return p.DecryptFOpts(k) },
				"DecryptJoinAcceptPayload": func(p *lorawan.PHYPayload) error { return p.DecryptJoinAcceptPayload(k) },
				"ValidateUplinkDataMIC": func(p *lorawan.PHYPayload) error {
					_, err := p.ValidateUplinkDataMIC(lorawan.LoRaWAN1_1, 0, 0, 0, k, k)
					return err
				},
				"ValidateUplinkJoinMIC": func(p *lorawan.PHYPayload) error { _, err := p.ValidateUplinkJoinMIC(k); return err },
			}
			for _, name := range []string{"DecryptFRMPayload", "DecryptFOpts", "DecryptJoinAcceptPayload", "ValidateUplinkDataMIC", "ValidateUplinkJoinMIC"} {
				var p lorawan.PHYPayload
				if p.UnmarshalBinary(append([]byte{}, wire...)) != nil {
					continue
				}
				c.Eval(1)
				if pn, msg := core.Guard(func() { calls[name](&p) }); pn {
					c.Violate("C09|panic|first-calls|"+name+"|"+core.PanicSite(msg), "call sequence of a fresh process, step %d with key %x on frame %x: %s", step, k, wire, short(msg, 300))
				}
			}
		}
		c.Shape("first-calls", c.Batch%2, step)
	}
}

// c09Grid: every binary decoder on the complete grid of short inputs
// (selector byte, status / mask / length byte, 0..14 further bytes): decoders
// whose length check and field reads are driven by different bits of the
// second byte fail only for particular values of it.
func c09Grid(c *core.Ctx, entries []c09Entry) {
	var sel []int
	for i := 0; i < 32; i++ {
		sel = append(sel, i)
	}
	sel = append(sel, 0x40, 0x60, 0x80, 0xa0, 0xc0, 0xe0, 0xff)
	for _, e := range entries {
		if e.text || e.json {
			continue
		}
		mon := "grid-" + e.name
		for _, b0 := range sel {
			if !c.Mine(mon, int64(b0)) {
				continue
			}
			r := c.RNG(mon, int64(b0))
			buf := make([]byte, 0, 24)
			for b1 := 0; b1 < 256; b1++ {
				for k := 0; k <= 14; k++ {
					for _, fill := range []byte{0x00, 0xff} {
						if k == 0 && fill == 0xff {
							continue
						}
						buf = append(buf[:0], byte(b0), byte(b1))
						for i := 0; i < k; i++ {
							buf = append(buf, fill)
						}
						c.Eval(1)
						// capacity == length: a decoder that re-slices beyond the length it was given must fault
						in := append(make([]byte, 0, len(buf)), buf...)
						in = in[:len(in):len(in)]
						if p, msg := core.Guard(func() { e.call(r, in) }); p {
							c.Violate("C09|panic|"+e.name+"|"+core.PanicSite(msg), "%s(%x) panics: %s", e.name, buf, short(msg, 400))
						} else if !bytes.Equal(in, buf) {
							c.Violate("C09|input-modified|"+e.name, "%s wrote into its input buffer: was %x now %x", e.name, buf, in)
						}
					}
				}
			}
			c.Shape(e.name, "grid", b0)
		}
	}
}

// c09Scaling: "in time linear in the input". Each entry point is called on inputs
// of 4 KiB and of 128 KiB (32x) from a few input families that keep decoders
// busy (long runs of one-byte commands, valid headers followed by filler, long
// base64 / hex / JSON strings, deep JSON nesting). Two observations per pair:
// bytes allocated (runtime.MemStats.TotalAlloc, deterministic for a
// single-goroutine call) and the fastest of three timings (collector off). Linear
// work gives a ratio of about 32 (up to ~90 observed: caches, allocator), quadratic
// work about 1024. Allocation beyond 256x, or time beyond 400x in every one of
// three independent repeats, is reported; a time ratio that exceeds the bound only in some repeats is
// noted as inconclusive timing noise, not as a violation.
func c09Scaling(c *core.Ctx, entries []c09Entry) {
	const small, large = 4 << 10, 128 << 10
	rep := func(unit string, n int) []byte { return bytes.Repeat([]byte(unit), n/len(unit)+1)[:n] }
	type family struct {
		name string
		gen  func(n int) []byte
	}
	bin := []family{
		{"zeros", func(n int) []byte { return make([]byte, n) }},
		{"run-of-0x02", func(n int) []byte { return rep("\x02", n) }},
		{"run-of-0xff", func(n int) []byte { return rep("\xff", n) }},
		{"data-frame-with-long-payload", func(n int) []byte { return append([]byte{0x40, 1, 2, 3, 4, 0x00, 1, 0, 1}, rep("\x03\x07", n-9)...) }},
		{"port0-frame-with-long-mac-stream", func(n int) []byte { return append([]byte{0x40, 1, 2, 3, 4, 0x00, 1, 0, 0}, rep("\x02", n-9)...) }},
		{"app-commands", func(n int) []byte { return rep("\x00\x01\x02\x03", n) }},
	}
	txt := []family{
		{"base64-A", func(n int) []byte { return rep("AAAA", n) }},
		{"base64-data-frame", func(n int) []byte {
			return []byte(base64.StdEncoding.EncodeToString(append([]byte{0x40, 1, 2, 3, 4, 0x00, 1, 0, 0}, rep("\x02", n*3/4-9)...)))
		}},
		{"hex", func(n int) []byte { return rep("ab", n) }},
		{"0x-hex", func(n int) []byte { return append([]byte("0x"), rep("ab", n-2)...) }},
		{"digits", func(n int) []byte { return rep("1", n) }},
	}
	js := []family{
		{"long-string", func(n int) []byte { return append(append([]byte{'"'}, rep("ab", n-2)...), '"') }},
		{"deep-arrays", func(n int) []byte { return rep("[", n) }},
		{"deep-objects", func(n int) []byte { return rep(`{"a":`, n) }},
		{"long-number", func(n int) []byte { return rep("1", n) }},
		{"object-with-long-phypayload", func(n int) []byte {
			return append(append([]byte(`{"PHYPayload":"`), rep("ab", n-18)...), '"', '}')
		}},
		{"long-array-of-strings", func(n int) []byte { return append(append([]byte{'['}, rep(`"ab",`, n-6)...), []byte(`"ab"]`)...) }},
	}
	measure := func(e c09Entry, r *core.RNG, in []byte) (alloc uint64, best time.Duration, panicked string) {
		var m0, m1 runtime.MemStats
		best = time.Hour
		// the collector's work grows with the live heap a call builds up, which is not the
		// decoder's doing: collect before, keep it off during the timed call
		defer debug.SetGCPercent(debug.SetGCPercent(-1))
		for k := 0; k < 3; k++ {
			arg := append(make([]byte, 0, len(in)), in...)
			runtime.GC()
			runtime.ReadMemStats(&m0)
			t0 := time.Now()
			p, msg := core.Guard(func() { e.call(r, arg) })
			d := time.Since(t0)
			runtime.ReadMemStats(&m1)
			if p {
				return 0, 0, msg
			}
			if d < best {
				best = d
			}
			if a := m1.TotalAlloc - m0.TotalAlloc; k == 0 || a < alloc {
				alloc = a
			}
		}
		return alloc, best, ""
	}
	for ei, e := range entries {
		if !c.Mine("scaling", int64(ei)) {
			continue
		}
		r := c.RNG("scaling", int64(ei))
		fams := bin
		if e.json {
			fams = js
		} else if e.text {
			fams = txt
		}
		for _, f := range fams {
			a1, t1, p1 := measure(e, r, f.gen(small))
			a2, t2, p2 := measure(e, r, f.gen(large))
			c.Eval(6)
			if p1 != "" || p2 != "" {
				c.Violate("C09|panic|"+e.name+"|"+core.PanicSite(p1+p2), "%s panics on a long %s input: %s", e.name, f.name, short(p1+p2, 400))
				continue
			}
			if a2 > 256*maxU64(a1, 32<<10) {
				c.Violate("C09|superlinear-allocation|"+e.name, "%s on %s input: %d bytes allocated for %d input bytes but %d for %d (x%d for x32 input)", e.name, f.name, a1, small, a2, large, a2/maxU64(a1, 1))
			}
			slow := func(t1, t2 time.Duration) bool { return t2 > 400*maxDur(t1, 5*time.Microsecond) }
			if slow(t1, t2) {
				again := 0
				for k := 0; k < 2; k++ {
					_, u1, _ := measure(e, r, f.gen(small))
					_, u2, _ := measure(e, r, f.gen(large))
					if slow(u1, u2) {
						again++
					}
				}
				if again == 2 {
					c.Violate("C09|superlinear-time|"+e.name, "%s on %s input: fastest of three calls takes %v for %d bytes and %v for %d bytes (x%d for x32 input), in three independent repeats", e.name, f.name, t1, small, t2, large, int64(t2/maxDur(t1, 1)))
				} else {
					c.Note(fmt.Sprintf("scaling: %s on %s input exceeded the time ratio once (%v -> %v) but not in the repeats: timing noise, not judged", e.name, f.name, t1, t2))
				}
			}
			if us := t2.Microseconds(); us > c.Res().Counters["max.slowest-128KiB-call-microseconds"] {
				c.Res().Counters["max.slowest-128KiB-call-microseconds"] = us
			}
			if t1 >= 5*time.Microsecond {
				if q := int64(t2 / t1); q > c.Res().Counters["max.time-ratio-for-32x-input(base>=5us)"] {
					c.Res().Counters["max.time-ratio-for-32x-input(base>=5us)"] = q
					if q > 150 {
						c.Note(fmt.Sprintf("scaling: largest time ratio so far %d: %s on %s input (%v -> %v)", q, e.name, f.name, t1, t2))
					}
				}
			}
			if a1 > 0 {
				if q := int64(a2 / maxU64(a1, 32<<10)); q > c.Res().Counters["max.allocation-ratio-for-32x-input"] {
					c.Res().Counters["max.allocation-ratio-for-32x-input"] = q
				}
			}
			c.Shape("scaling", e.name, f.name)
			c.Count("scaling.pairs-measured", 1)
		}
	}
}

func maxDur(a, b time.Duration) time.Duration {
	if a > b {
		return a
	}
	return b
}

func maxU64(a, b uint64) uint64 {
	if a > b {
		return a
	}
	return b
}

// c09Lifetime: a long-running process calls the same decoder tens of thousands of times; anything
// the library counts or accumulates per call (a counter that wraps at 2^16, a cache that is dropped
// or grows) shows only then. Every entry point is called 70 000 times in one process on a few
// short inputs; a panic on any of the calls is a violation like any other.
func c09Lifetime(c *core.Ctx, entries []c09Entry) {
	const calls = 70000
	for ei, e := range entries {
		if !c.Mine("lifetime", int64(ei)) {
			continue
		}
		r := c.RNG("lifetime", int64(ei))
		// inputs the entry point accepts, so that every call does its real work (a call that bails out
		// at the first length check exercises nothing that could wear out)
		var ins, spare [][]byte
		for k := 0; k < 200 && len(ins) < 8; k++ {
			var in []byte
			switch {
			case e.json:
				in = c09JSONInput(r, ei+k)
			case e.text:
				in = c09TextInput(r, r.Intn(40))
			default:
				in, _ = c09Binary(r, e, int64(k))
				if len(in) > 96 {
					in = in[:96]
				}
			}
			var err error
			if p, _ := core.Guard(func() { err = e.call(r, append([]byte{}, in...)) }); !p && err == nil {
				ins = append(ins, in)
			} else if len(spare) < 8 {
				spare = append(spare, in)
			}
		}
		for len(ins) < 4 && len(spare) > 0 {
			ins, spare = append(ins, spare[0]), spare[1:]
		}
		if len(ins) == 0 {
			ins = [][]byte{{}}
		}
		bad := false
		for k := 0; k < calls && !bad; k++ {
			in := ins[k%len(ins)]
			arg := append(make([]byte, 0, len(in)), in...)
			if p, msg := core.Guard(func() { e.call(r, arg) }); p {
				c.Violate("C09|panic|"+e.name+"|"+core.PanicSite(msg), "call number %d of %s in this process (input %s) panics: %s", k+1, e.name, showInput(in, e.text), short(msg, 300))
				bad = true
			}
		}
		c.Eval(calls)
		c.Shape("lifetime", e.name)
	}
}

// c09ConcurrentRegistry: "never hangs" includes decoding while another goroutine
// registers a proprietary MAC command (the registry is the one lock decoders
// take). A deadlock leaves the case stuck; the worker watchdog and the parent's
// single-case replay turn that into a hang violation. Verdict by completion of a
// fixed number of operations, not by a deadline.
func c09ConcurrentRegistry(c *core.Ctx) {
	rounds := c.N(24, 400)
	for h := int64(0); h < rounds; h++ {
		if !c.Mine("decode-while-registering", h) {
			continue
		}
		r := c.RNG("decode-while-registering", h)
		lorawan.VerifResetProprietary()
		var wg sync.WaitGroup
		start := make(chan struct{})
		var decoded int64
		var pmsg atomic.Value
		for g := 0; g < 2+r.Intn(6); g++ {
			wg.Add(1)
			go func(rr *core.RNG) {
				defer wg.Done()
				<-start
				for i := 0; i < 150; i++ {
					up := rr.Bool()
					_, b := genMACStream(rr, up, 1+rr.Intn(14), false)
					b = append(b, 0xE0, 1, 2)
					if p, msg := core.Guard(func() {
						f := frameOf(up, nil, 0, b)
						f.DecodeFRMPayloadToMACCommands()
						g := frameOf(up, b[:minInt(len(b), 15)], 1, nil)
						g.DecodeFOptsToMACCommands()
						var mc lorawan.MACCommand
						mc.UnmarshalBinary(up, b)
					}); p {
						pmsg.Store(msg)
					}
					atomic.AddInt64(&decoded, 3)
				}
			}(c.RNG("decode-while-registering-d", h*16+int64(g)))
		}
		for w := 0; w < 1+r.Intn(2); w++ {
			wg.Add(1)
			go func(rr *core.RNG) {
				defer wg.Done()
				<-start
				for i := 0; i < 120; i++ {
					lorawan.RegisterProprietaryMACCommand(rr.Bool(), lorawan.CID(0xE0+rr.Intn(4)), 1+rr.Intn(4))
					if rr.Chance(1, 4) {
						// registrations that are refused (or register nothing) must not leave anything behind that a decoder trips over
						lorawan.RegisterProprietaryMACCommand(rr.Bool(), lorawan.CID(0xE0+rr.Intn(4)), -rr.Intn(4))
						lorawan.RegisterProprietaryMACCommand(rr.Bool(), lorawan.CID(rr.Intn(0x80)), 1+rr.Intn(4))
					}
					if i%4 == 0 {
						runtime.Gosched()
					}
				}
			}(c.RNG("decode-while-registering-w", h*16+int64(w)))
		}
		close(start)
		wg.Wait()
		c.Eval(decoded)
		c.Count("decodes-completed-while-registering", decoded)
		if m := pmsg.Load(); m != nil {
			c.Violate("C09|panic|decode-while-registering|"+core.PanicSite(m.(string)), "MAC-command decode panics while a proprietary command is being registered: %s", short(m.(string), 400))
		}
		c.Shape("decode-while-registering", runtime.GOMAXPROCS(0), h%8)
	}
	lorawan.VerifResetProprietary()
}

func runC09(c *core.Ctx) {
	c09FirstCalls(c)
	entries := c09Entries()
	c09Grid(c, entries)
	c09Scaling(c, entries)
	c09Lifetime(c, entries)
	c09ConcurrentRegistry(c)
	per := c.N(3000, 1500000)
	for ei, e := range entries {
		mon := "entry-" + e.name
		const chunk = 250
		var maxDur time.Duration
		for blk := int64(0); blk < per/chunk; blk++ {
			if !c.Mine(mon, blk) {
				continue
			}
			r := c.RNG(mon, blk)
			for k := int64(0); k < chunk; k++ {
				var in []byte
				kind := ""
				switch {
				case e.json:
					in, kind = c09JSONInput(r, ei+int(k)), "json"
				case e.text:
					in, kind = c09TextInput(r, r.Intn(80)), "text"
					if k%9 == 0 {
						in = c09TextInput(r, r.Intn(513))
					}
				default:
					in, kind = c09Binary(r, e, blk*chunk+k)
				}
				// guarded buffer: canary | input | canary, input handed over as a sub-slice with spare capacity
				pre, post := 8+r.Intn(8), 24
				buf := make([]byte, pre+len(in)+post)
				for i := range buf {
					buf[i] = 0xC5
				}
				copy(buf[pre:], in)
				arg := buf[pre : pre+len(in)]
				if k%2 == 1 {
					// no spare capacity: reading past the end by re-slicing (data[a:b] with b > len) faults
					// instead of silently succeeding
					arg = buf[pre : pre+len(in) : pre+len(in)]
				}
				var err error
				t0 := time.Now()
				c.Eval(1)
				p, msg := core.Guard(func() { err = e.call(r, arg) })
				if d := time.Since(t0); d > maxDur {
					maxDur = d
				}
				if p {
					c.Violate("C09|panic|"+e.name+"|"+core.PanicSite(msg), "%s(%s) panics: %s", e.name, showInput(in, e.text), short(msg, 400))
					continue
				}
				if !bytes.Equal(buf[pre:pre+len(in)], in) {
					c.Violate("C09|input-modified|"+e.name, "%s wrote into its input buffer: was %s now %x", e.name, showInput(in, e.text), buf[pre:pre+len(in)])
				} else {
					for i := range buf {
						if (i < pre || i >= pre+len(in)) && buf[i] != 0xC5 {
							c.Violate("C09|wrote-outside-input|"+e.name, "%s wrote outside its input slice (offset %d relative to the slice start) for input %s", e.name, i-pre, showInput(in, e.text))
							break
						}
					}
				}
				c.Shape(e.name, kind, lenClassName(len(in)), err == nil)
			}
		}
		if us := maxDur.Microseconds(); us > c.Res().Counters["max.slowest-call-microseconds"] {
			c.Res().Counters["max.slowest-call-microseconds"] = us
		}
	}
	c.Res().Counters["max.entry-points"] = int64(len(entries))
	if c.WantSample("entries") {
		names := []string{}
		for _, e := range entries {
			names = append(names, e.name)
		}
		c.Sample("entries", names)
	}
}

func showInput(in []byte, text bool) string {
	if text {
		return fmt.Sprintf("%q", short(string(in), 300))
	}
	return short(core.Hex(in), 600)
}
