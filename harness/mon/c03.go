package mon

import (
	"bytes"
	"errors"
	"fmt"

	"github.com/brocaar/lorawan"

	"lwverif/core"
	"lwverif/spec"
)

func init() {
	core.Register(&core.Property{
		ID:   "C03",
		Rule: "exported functions: EncryptFRMPayload on every length 0..255 and EncryptFOpts on every length 0..32 x both directions x aFCntDown x seeded keys/DevAddr/32-bit counters (boundary counters included); PHYPayload methods: generated frames with FPort absent/0/>0, up/down, MAC-command or raw FOpts incl. over-long (16..40 byte) FOpts. Oracle: independent keystream S_i = AES(K, A_i) built from the spec text; output must equal plaintext XOR keystream, keep its length, be an involution, and every call must either transform or return an error. Distinct = (entry point, direction, length, aFCntDown / FPort kind).",
		Assumptions: []string{
			"crypto/aes of the Go standard library is trusted",
			"FOpts encryption follows LoRaWAN 1.1 with the FOpts-encryption erratum (A[4]=0x01 for FCntUp/NFCntDown, 0x02 for AFCntDown, A[15]=0x01), which is what the repository's own examples pin",
		},
		MinEvals: 1000,
		Run:      runC03,
	})
}

// c03FirstCalls runs before anything else in a fresh worker process: the very
// first crypto operations of the process use the all-zero key (even batches)
// or a non-zero key followed by the all-zero key (odd batches).
func c03FirstCalls(c *core.Ctx) {
	if !c.Mine("first-calls", int64(c.Batch)) {
		return
	}
	r := c.RNG("first-calls", int64(c.Batch))
	var zero, other [16]byte
	r.Fill(other[:])
	keys := [][16]byte{zero, other, zero, other, zero}
	if c.Batch%2 == 1 {
		keys = [][16]byte{other, zero, other, zero}
	}
	var da [4]byte
	r.Fill(da[:])
	for step, key := range keys {
		for _, ln := range []int{5, 16, 33} {
			pt := r.Bytes(ln)
			var out []byte
			var err error
			c.Eval(1)
			if p, msg := core.Guard(func() {
				out, err = lorawan.EncryptFRMPayload(lorawan.AES128Key(key), true, lorawan.DevAddr(da), 7, append([]byte{}, pt...))
			}); p || err != nil {
				c.Violate("C03|first-calls|EncryptFRMPayload|failed", "call %d of the process (key %x): %v %s", step, key, err, short(msg, 300))
				continue
			}
			if want := spec.XOR(pt, spec.FRMKeystream(key, true, da, 7, ln)); !bytes.Equal(out, want) {
				c.Violate("C03|first-calls|EncryptFRMPayload|keystream", "call %d of the process with key %x after keys %x: got %x want %x", step, key, keys[:step], out, want)
			}
		}
		fo := r.Bytes(9)
		var out []byte
		var err error
		c.Eval(1)
		if p, msg := core.Guard(func() {
			out, err = lorawan.EncryptFOpts(lorawan.AES128Key(key), false, false, lorawan.DevAddr(da), 9, append([]byte{}, fo...))
		}); p || err != nil {
			c.Violate("C03|first-calls|EncryptFOpts|failed", "call %d (key %x): %v %s", step, key, err, short(msg, 300))
		} else if want := spec.XOR(fo, spec.FOptsKeystream(key, false, false, da, 9)); !bytes.Equal(out, want) {
			c.Violate("C03|first-calls|EncryptFOpts|keystream", "call %d with key %x after %x: got %x want %x", step, key, keys[:step], out, want)
		}
		c.Shape("first-calls", c.Batch%2, step)
	}
}

// c03SharedBuffer: one caller-owned payload buffer used for two frames (multicast,
// retransmission with the next FCnt): each frame must carry plaintext XOR its own keystream.
func c03SharedBuffer(c *core.Ctx, r *core.RNG) {
	ln := []int{16, 32, 48, 5, 17, 240, 64, 1}[r.Intn(8)]
	shared := r.Bytes(ln)
	orig := append([]byte{}, shared...)
	key := key16(r)
	var da [4]byte
	r.Fill(da[:])
	up := r.Bool()
	mt := lorawan.UnconfirmedDataDown
	if up {
		mt = lorawan.UnconfirmedDataUp
	}
	port := uint8(1 + r.Intn(200))
	fcnt := r.U32Edge()
	for k := uint32(0); k < 2; k++ {
		phy := lorawan.PHYPayload{MHDR: lorawan.MHDR{MType: mt}, MACPayload: &lorawan.MACPayload{
			FHDR: lorawan.FHDR{DevAddr: lorawan.DevAddr(da), FCnt: fcnt + k}, FPort: &port,
			FRMPayload: []lorawan.Payload{&lorawan.DataPayload{Bytes: shared}}}}
		var err error
		c.Eval(1)
		if p, msg := core.Guard(func() { err = phy.EncryptFRMPayload(lorawan.AES128Key(key)) }); p || err != nil {
			c.Violate("C03|shared-buffer|failed", "%v %s", err, short(msg, 200))
			return
		}
		got, _ := payloadBytes(phy.MACPayload.(*lorawan.MACPayload).FRMPayload)
		want := spec.XOR(orig, spec.FRMKeystream(key, up, da, fcnt+k, ln))
		if !bytes.Equal(got, want) {
			c.Violate(fmt.Sprintf("C03|shared-buffer|frame=%d|aligned=%v", k, ln%16 == 0), "the same %d-byte payload buffer is sent in two frames (FCnt %d and %d): frame %d carries %x, plaintext XOR keystream is %x", ln, fcnt, fcnt+1, k, got, want)
			return
		}
	}
	c.Shape("shared-buffer", ln, up)
}

func runC03(c *core.Ctx) {
	c03FirstCalls(c)
	// 1. exported EncryptFRMPayload: all lengths x parameter sets
	sets := c.N(40, 20000)
	idx := int64(0)
	for s := int64(0); s < sets; s++ {
		for ln := 0; ln <= 255; ln++ {
			idx++
			if !c.Mine("func-frm", idx) {
				continue
			}
			r := c.RNG("func-frm", idx)
			key := key16(r)
			var da [4]byte
			r.Fill(da[:])
			fcnt := r.U32Edge()
			up := r.Bool()
			pt := r.Bytes(ln)
			in := make([]byte, ln) // exact capacity
			if ln > 0 && fcnt%3 == 1 {
				// the payload as a sub-slice of a larger buffer, starting at an odd address (word-at-a-time code)
				off := 1 + int(fcnt>>8)%15
				big := make([]byte, off+ln)
				in = big[off : off+ln : off+ln]
			}
			copy(in, pt)
			var out []byte
			var err error
			c.Eval(1)
			if p, msg := core.Guard(func() {
				out, err = lorawan.EncryptFRMPayload(lorawan.AES128Key(key), up, lorawan.DevAddr(da), fcnt, in)
			}); p || err != nil {
				c.Violate("C03|func|EncryptFRMPayload|failed", "len=%d: %v %s", ln, err, msg)
				continue
			}
			want := spec.XOR(pt, spec.FRMKeystream(key, up, da, fcnt, ln))
			if !bytes.Equal(out, want) {
				c.Violate(fmt.Sprintf("C03|func|EncryptFRMPayload|keystream|up=%v|blocks=%d", up, (ln+15)/16), "len=%d up=%v fcnt=%d devaddr=%x key=%x\n got  %x\n want %x", ln, up, fcnt, da, key, out, want)
				continue
			}
			// the same call again gives the same answer (nothing is remembered from one call to the next)
			if again, e2 := lorawan.EncryptFRMPayload(lorawan.AES128Key(key), up, lorawan.DevAddr(da), fcnt, append(make([]byte, 0, ln), pt...)); e2 != nil || !bytes.Equal(again, want) {
				c.Violate("C03|func|EncryptFRMPayload|second-identical-call-differs", "len=%d: first call %x, second call with the same arguments %x (%v)", ln, out, again, e2)
			}
			// involution
			in2 := append(make([]byte, 0, len(out)), out...)
			out2, err := lorawan.EncryptFRMPayload(lorawan.AES128Key(key), up, lorawan.DevAddr(da), fcnt, in2)
			c.Eval(1)
			if err != nil || !bytes.Equal(out2, pt) {
				c.Violate("C03|func|EncryptFRMPayload|involution", "len=%d: second application does not restore the plaintext (%v)", ln, err)
			}
			c.Shape("func-frm", up, ln)
			if c.WantSample("func-frm") && ln == 20 {
				c.Sample("func-frm", map[string]interface{}{"len": ln, "uplink": up, "fcnt": fcnt, "devaddr": core.Hex(da[:]), "key": core.Hex(key[:]), "plaintext": core.Hex(pt), "ciphertext": core.Hex(out)})
			}
		}
	}
	if !c.Replay {
		c.Exhaustive("func-frm lengths 0..255")
	}

	// 2. exported EncryptFOpts
	idx = 0
	for s := int64(0); s < sets; s++ {
		for ln := 0; ln <= 32; ln++ {
			for v := 0; v < 4; v++ {
				idx++
				if !c.Mine("func-fopts", idx) {
					continue
				}
				r := c.RNG("func-fopts", idx)
				key := key16(r)
				var da [4]byte
				r.Fill(da[:])
				fcnt := r.U32Edge()
				up := v&1 == 1
				afd := v&2 == 2
				pt := r.Bytes(ln)
				in := append([]byte{}, pt...)
				var out []byte
				var err error
				c.Eval(1)
				if p, msg := core.Guard(func() {
					out, err = lorawan.EncryptFOpts(lorawan.AES128Key(key), afd, up, lorawan.DevAddr(da), fcnt, in)
				}); p {
					c.Violate("C03|func|EncryptFOpts|panic", "len=%d: %s", ln, msg)
					continue
				}
				if ln > 15 {
					if err == nil {
						c.Violate("C03|func|EncryptFOpts|overlong-accepted", "len=%d accepted without error, out=%x", ln, out)
					}
					c.Shape("func-fopts-rejected", ln)
					continue
				}
				if err != nil && up && afd {
					// the AFCntDown variant belongs to downlinks; asking for it on an uplink has no keystream in
					// the specification, so an error is as good as the library's answer (which is checked below
					// against the formula with exactly these parameters when there is one)
					c.Count("func-fopts.afcntdown-on-uplink-refused", 1)
					continue
				}
				if err != nil {
					c.Violate("C03|func|EncryptFOpts|failed", "len=%d: %v", ln, err)
					continue
				}
				want := spec.XOR(pt, spec.FOptsKeystream(key, afd, up, da, fcnt))
				if !bytes.Equal(out, want) {
					c.Violate(fmt.Sprintf("C03|func|EncryptFOpts|keystream|up=%v|afcntdown=%v", up, afd), "len=%d up=%v aFCntDown=%v fcnt=%d\n got  %x\n want %x", ln, up, afd, fcnt, out, want)
					continue
				}
				out2, err := lorawan.EncryptFOpts(lorawan.AES128Key(key), afd, up, lorawan.DevAddr(da), fcnt, append([]byte{}, out...))
				if err != nil || !bytes.Equal(out2, pt) {
					c.Violate("C03|func|EncryptFOpts|involution", "len=%d", ln)
				}
				c.Shape("func-fopts", up, afd, ln)
			}
		}
	}

	// 3. PHYPayload methods
	n := c.N(20000, 15000000)
	for i := int64(0); i < n; i++ {
		if !c.Mine("methods", i) {
			continue
		}
		r := c.RNG("methods", i)
		if i%8 == 0 {
			c03SharedBuffer(c, r)
		}
		o := anyData()
		if r.Chance(1, 8) {
			o.maxFRM = 255 // the property's lengths 0..255 also through the PHYPayload methods
		}
		d := genDataCase(r, o)
		key := key16(r)
		up := d.Spec.Uplink()
		afd := !up && d.Spec.FPort > 0

		// ---- FRMPayload
		phy := d.Lib()
		var err error
		c.Eval(1)
		if p, msg := core.Guard(func() { err = phy.EncryptFRMPayload(lorawan.AES128Key(key)) }); p || err != nil {
			c.Violate("C03|method|EncryptFRMPayload|failed", "%v %s", err, msg)
		} else {
			mp := phy.MACPayload.(*lorawan.MACPayload)
			got, ok := payloadBytes(mp.FRMPayload)
			want := spec.XOR(d.Spec.FRMPayload, spec.FRMKeystream(key, up, d.Spec.DevAddr, d.Spec.FCnt, len(d.Spec.FRMPayload)))
			if !ok || !bytes.Equal(got, want) {
				c.Violate(fmt.Sprintf("C03|method|EncryptFRMPayload|keystream|up=%v", up), "port=%s len=%d fcnt=%d\n got  %s\n want %x", d.portKind, len(d.Spec.FRMPayload), d.Spec.FCnt, short(core.Dump(mp.FRMPayload), 300), want)
			} else {
				c.Eval(1)
				// arbitrary bytes on port 0 may legitimately fail to frame as MAC commands; an
				// error for port 0 without any payload is an error, which the property allows
				rawPort0 := d.Spec.FPort == 0 && (!d.FRMIsMAC || len(d.Spec.FRMPayload) == 0)
				if p, msg := core.Guard(func() { err = phy.DecryptFRMPayload(lorawan.AES128Key(key)) }); p || (err != nil && !rawPort0) {
					c.Violate("C03|method|DecryptFRMPayload|failed", "%v %s (port %s, plaintext %x)", err, msg, d.portKind, d.Spec.FRMPayload)
				} else if err != nil {
					// rawPort0 framing error: allowed
				} else if d.Spec.FPort == 0 && len(d.Spec.FRMPayload) > 0 && d.FRMIsMAC {
					if g, w := core.Dump(mp.FRMPayload), core.Dump(d.FRM); g != w {
						c.Violate("C03|method|DecryptFRMPayload|port0-commands", "got %s want %s", short(g, 400), short(w, 400))
					}
				} else if d.Spec.FPort == 0 && len(d.Spec.FRMPayload) > 0 {
					// raw bytes on port 0 are decoded as MAC commands by the library: compare re-marshalled bytes
					var back []byte
					for _, pl := range mp.FRMPayload {
						b, e := pl.MarshalBinary()
						if e != nil {
							back = nil
							break
						}
						back = append(back, b...)
					}
					_ = back // framing of arbitrary bytes is C07's business
				} else {
					got, ok := payloadBytes(mp.FRMPayload)
					if !ok || !bytes.Equal(got, d.Spec.FRMPayload) {
						c.Violate("C03|method|DecryptFRMPayload|not-restored", "got %s want %x", short(core.Dump(mp.FRMPayload), 300), d.Spec.FRMPayload)
					}
				}
			}
		}

		// ---- FOpts
		phy = d.Lib()
		c.Eval(1)
		if p, msg := core.Guard(func() { err = phy.EncryptFOpts(lorawan.AES128Key(key)) }); p || err != nil {
			c.Violate("C03|method|EncryptFOpts|failed", "%v %s", err, msg)
		} else {
			mp := phy.MACPayload.(*lorawan.MACPayload)
			got, ok := payloadBytes(mp.FHDR.FOpts)
			want := spec.XOR(d.Spec.FOpts, spec.FOptsKeystream(key, afd, up, d.Spec.DevAddr, d.Spec.FCnt))
			if len(d.Spec.FOpts) == 0 {
				ok = ok && len(got) == 0
				want = nil
			}
			if !ok || !bytes.Equal(got, want) {
				c.Violate(fmt.Sprintf("C03|method|EncryptFOpts|keystream|up=%v|port=%s", up, d.portKind), "fopts=%x fcnt=%d afcntdown(model)=%v\n got  %s\n want %x", d.Spec.FOpts, d.Spec.FCnt, afd, short(core.Dump(mp.FHDR.FOpts), 300), want)
			} else if len(d.Spec.FOpts) > 0 {
				c.Eval(1)
				if p, msg := core.Guard(func() { err = phy.DecryptFOpts(lorawan.AES128Key(key)) }); p || (err != nil && !d.FOptsRaw) {
					c.Violate("C03|method|DecryptFOpts|failed", "%v %s", err, msg)
				} else if !d.FOptsRaw {
					if g, w := core.Dump(mp.FHDR.FOpts), core.Dump(d.FOpts); g != w {
						c.Violate("C03|method|DecryptFOpts|commands", "got %s want %s", short(g, 400), short(w, 400))
					}
				}
			}
		}
		c.Shape("methods", up, d.portKind, len(d.Spec.FOpts), lenClassName(len(d.Spec.FRMPayload)), d.FOptsRaw)

		// ---- commands that cannot be serialised: the methods must report it, not succeed
		if i%16 == 3 {
			invalid := &lorawan.MACCommand{CID: lorawan.LinkADRReq, Payload: &lorawan.LinkADRReqPayload{DataRate: 16}}
			if up {
				invalid = &lorawan.MACCommand{CID: lorawan.PingSlotInfoReq, Payload: &lorawan.PingSlotInfoReqPayload{Periodicity: 8}}
			}
			for _, where := range []string{"FOpts", "FRMPayload"} {
				phy := frameOf(up, nil, -1, nil)
				mp := phy.MACPayload.(*lorawan.MACPayload)
				var call func() error
				if where == "FOpts" {
					mp.FHDR.FOpts = []lorawan.Payload{invalid}
					call = func() error { return phy.EncryptFOpts(lorawan.AES128Key(key)) }
				} else {
					z := uint8(0)
					mp.FPort = &z
					mp.FRMPayload = []lorawan.Payload{invalid}
					call = func() error { return phy.EncryptFRMPayload(lorawan.AES128Key(key)) }
				}
				var err error
				c.Eval(1)
				if p, msg := core.Guard(func() { err = call() }); p {
					c.Violate("C03|method|unserialisable-command|panic|"+where, "%s", short(msg, 200))
				} else if err == nil {
					c.Violate("C03|method|unserialisable-command|success|"+where, "encrypting %s that hold a command which cannot be encoded (%s) reported success", where, core.Dump(invalid))
				}
				c.Shape("unserialisable", where, up)
			}
		}

		// ---- a frame that is, for an unrelated reason, not serialisable at the moment (16+ bytes of FOpts,
		// or payload bytes without an FPort) and is repaired afterwards: each call on the way either
		// reports an error and leaves the payload alone, or applies the transform exactly once
		if i%8 == 5 && len(d.Spec.FRMPayload) > 0 && !d.FRMIsMAC {
			phy := d.Lib()
			mp := phy.MACPayload.(*lorawan.MACPayload)
			keepFOpts, keepPort := mp.FHDR.FOpts, mp.FPort
			if r.Bool() {
				mp.FHDR.FOpts = []lorawan.Payload{&lorawan.DataPayload{Bytes: r.Bytes(16 + r.Intn(4))}}
			} else {
				mp.FPort = nil
			}
			cur := append([]byte{}, d.Spec.FRMPayload...)
			fkey := key
			ks := spec.FRMKeystream(fkey, up, d.Spec.DevAddr, d.Spec.FCnt, len(cur))
			for step := 0; step < 2; step++ {
				var err error
				c.Eval(1)
				if p, msg := core.Guard(func() { err = phy.EncryptFRMPayload(lorawan.AES128Key(fkey)) }); p {
					c.Violate("C03|method|EncryptFRMPayload|panic-on-unserialisable-frame", "%s", short(msg, 200))
					break
				}
				got, _ := payloadBytes(mp.FRMPayload)
				if err != nil {
					if !bytes.Equal(got, cur) {
						c.Violate("C03|method|EncryptFRMPayload|error-but-transformed", "step %d: EncryptFRMPayload returned %v yet the payload changed from %x to %x", step, err, cur, got)
						break
					}
				} else {
					want := spec.XOR(cur, ks)
					if !bytes.Equal(got, want) {
						c.Violate("C03|method|EncryptFRMPayload|success-but-not-the-transform", "step %d (after an earlier call on the same frame %s): payload %x, expected %x", step, map[bool]string{true: "failed", false: "succeeded"}[step > 0], got, want)
						break
					}
					cur = want
				}
				mp.FHDR.FOpts, mp.FPort = keepFOpts, keepPort // repaired before the second call
			}
			c.Shape("repaired-frame", up, mp.FPort == nil)
		}

		// ---- payload items the caller defined and that cannot be serialised (MarshalBinary returns an error,
		// or panics as a typed nil pointer does): the method may fail, it may even let the panic through,
		// but it does not report success on a frame whose payload it could not read
		if i%16 == 7 {
			for _, kind := range []string{"error", "panic", "typed-nil"} {
				phy := frameOf(up, nil, 1+r.Intn(200), nil)
				mp := phy.MACPayload.(*lorawan.MACPayload)
				head := r.Bytes(1 + r.Intn(20))
				var bad lorawan.Payload = &brokenPayload{panics: kind == "panic"}
				if kind == "typed-nil" {
					bad = (*lorawan.DataPayload)(nil)
				}
				mp.FRMPayload = []lorawan.Payload{&lorawan.DataPayload{Bytes: append([]byte{}, head...)}, bad}
				var err error
				c.Eval(1)
				p, _ := core.Guard(func() { err = phy.EncryptFRMPayload(lorawan.AES128Key(key)) })
				if !p && err == nil {
					got, _ := payloadBytes(mp.FRMPayload)
					c.Violate("C03|method|EncryptFRMPayload|success-on-unreadable-payload|"+kind, "EncryptFRMPayload reports success although one payload item cannot be serialised (%s); the frame now carries %x (it held %x plus the unreadable item)", kind, got, head)
				}
				c.Shape("unreadable-item", kind, up)
			}
		}

		// ---- over-long FOpts: transform or error, never silent success
		if i%4 == 0 {
			ln := 16 + r.Intn(25)
			raw := r.Bytes(ln)
			for _, method := range []string{"EncryptFOpts", "DecryptFOpts"} {
				phy := d.Lib()
				mp := phy.MACPayload.(*lorawan.MACPayload)
				mp.FHDR.FOpts = []lorawan.Payload{&lorawan.DataPayload{Bytes: append([]byte{}, raw...)}}
				c.Eval(1)
				p, msg := core.Guard(func() {
					if method == "EncryptFOpts" {
						err = phy.EncryptFOpts(lorawan.AES128Key(key))
					} else {
						err = phy.DecryptFOpts(lorawan.AES128Key(key))
					}
				})
				if p {
					c.Violate("C03|method|"+method+"|overlong-panic", "%s", msg)
					continue
				}
				if err == nil {
					got, _ := payloadBytes(mp.FHDR.FOpts)
					c.Violate("C03|method|"+method+"|success-without-transform", "%d-byte FOpts: returned nil although FOpts encryption is impossible; FOpts now %s (was %x)", ln, short(core.Dump(mp.FHDR.FOpts), 200), got)
				}
				c.Shape("methods-overlong", method, up)
			}
		}
	}
}

// brokenPayload is a caller-defined Payload whose MarshalBinary fails.
type brokenPayload struct{ panics bool }

func (p *brokenPayload) MarshalBinary() ([]byte, error) {
	if p.panics {
		panic("brokenPayload.MarshalBinary")
	}
	return nil, errors.New("brokenPayload: cannot be serialised")
}
func (p *brokenPayload) UnmarshalBinary(uplink bool, data []byte) error { return nil }
