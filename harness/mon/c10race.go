package mon

import (
	"bytes"
	"fmt"
	"runtime"
	"sort"
	"sync"
	"sync/atomic"
	"time"

	"github.com/anishathalye/porcupine"
	"github.com/brocaar/lorawan"
	"github.com/brocaar/lorawan/applayer/multicastsetup"

	"lwverif/core"
	"lwverif/spec"
)

// registry operation as recorded at the client boundary
type regIn struct {
	Key   int // index into the round's key list
	Write bool
	Size  int
}

type regKey struct {
	up  bool
	cid lorawan.CID
}

var regModel10 = porcupine.Model{
	Partition: func(h []porcupine.Operation) [][]porcupine.Operation {
		m := map[int][]porcupine.Operation{}
		for _, o := range h {
			k := o.Input.(regIn).Key
			m[k] = append(m[k], o)
		}
		keys := make([]int, 0, len(m))
		for k := range m {
			keys = append(keys, k)
		}
		sort.Ints(keys)
		out := make([][]porcupine.Operation, 0, len(m))
		for _, k := range keys {
			out = append(out, m[k])
		}
		return out
	},
	Init: func() interface{} { return 0 },
	Step: func(st, in, out interface{}) (bool, interface{}) {
		i := in.(regIn)
		if i.Write {
			return true, i.Size // registration of a positive size always takes effect
		}
		return out.(int) == st.(int), st
	},
	DescribeOperation: func(in, out interface{}) string {
		i := in.(regIn)
		if i.Write {
			return fmt.Sprintf("register(k%d,%d)", i.Key, i.Size)
		}
		return fmt.Sprintf("read(k%d)->%v", i.Key, out)
	},
}

// privateWork is what a goroutine does on values nobody else touches.
func privateWork(r *core.RNG, iters int, yield bool) (ops int, err error) {
	for i := 0; i < iters; i++ {
		d := genDataCase(r, anyData())
		phy := d.Lib()
		k := lorawan.AES128Key(key16(r))
		up := d.Spec.Uplink()
		if e := phy.EncryptFRMPayload(k); e != nil {
			return ops, e
		}
		if up {
			phy.SetUplinkDataMIC(lorawan.LoRaWAN1_1, 3, 1, 2, k, k)
		} else {
			phy.SetDownlinkDataMIC(lorawan.LoRaWAN1_1, 3, k)
		}
		b, e := phy.MarshalBinary()
		if e != nil {
			return ops, e
		}
		if yield && i%3 == 0 {
			runtime.Gosched()
		}
		var rx lorawan.PHYPayload
		if e := rx.UnmarshalBinary(b); e != nil {
			return ops, e
		}
		mp := rx.MACPayload.(*lorawan.MACPayload)
		mp.FHDR.FCnt = d.Spec.FCnt
		var ok bool
		if up {
			ok, e = rx.ValidateUplinkDataMIC(lorawan.LoRaWAN1_1, 3, 1, 2, k, k)
		} else {
			ok, e = rx.ValidateDownlinkDataMIC(lorawan.LoRaWAN1_1, 3, k)
		}
		if e != nil || !ok {
			return ops, fmt.Errorf("own frame does not validate under concurrency (ok=%v err=%v)", ok, e)
		}
		// MAC decode goes through the shared registry (read side)
		rx.DecodeFOptsToMACCommands()
		rx.DecryptFRMPayload(k)
		// a stream with standard and (possibly registered) proprietary CIDs
		st := frameOf(up, nil, 0, append([]byte{0xE0, 1, 2, 3, 0x02, 0xE1}, r.Bytes(4)...))
		st.DecodeFRMPayloadToMACCommands()
		lorawan.EncryptFOpts(k, false, up, lorawan.DevAddr(d.Spec.DevAddr), d.Spec.FCnt, r.Bytes(r.Intn(16)))
		// application-layer key derivations are crypto operations on private values too
		mk := key16(r)
		var ma [4]byte
		r.Fill(ma[:])
		if got, e := multicastsetup.GetMcAppSKey(lorawan.AES128Key(mk), lorawan.DevAddr(ma)); e != nil || [16]byte(got) != spec.McKey(mk, [16]byte{0x01, ma[3], ma[2], ma[1], ma[0]}) {
			return ops, fmt.Errorf("GetMcAppSKey(%x, %x) = %x under concurrency (err %v)", mk, ma, [16]byte(got), e)
		}
		if got, e := multicastsetup.GetMcKEKey(lorawan.AES128Key(mk)); e != nil || [16]byte(got) != spec.McKey(mk, [16]byte{}) {
			return ops, fmt.Errorf("GetMcKEKey(%x) = %x under concurrency (err %v)", mk, [16]byte(got), e)
		}
		// and the frame crypto of this goroutine must equal the model, not only be self-consistent
		pt := r.Bytes(1 + r.Intn(40))
		if ct, e := lorawan.EncryptFRMPayload(k, up, lorawan.DevAddr(d.Spec.DevAddr), d.Spec.FCnt, append([]byte{}, pt...)); e != nil || !bytes.Equal(ct, spec.XOR(pt, spec.FRMKeystream([16]byte(k), up, d.Spec.DevAddr, d.Spec.FCnt, len(pt)))) {
			return ops, fmt.Errorf("EncryptFRMPayload under concurrency differs from the keystream model (err %v)", e)
		}
		ops += 11
	}
	return ops, nil
}

func runC10Race(c *core.Ctx) {
	rounds := c.N(40, 2500)
	for h := int64(0); h < rounds; h++ {
		if !c.Mine("race-history", h) {
			continue
		}
		r := c.RNG("race-history", h)
		lorawan.VerifResetProprietary()
		nk := 2 + r.Intn(3)
		all := []regKey{{true, 0xE0}, {false, 0xE0}, {true, 0xE1}, {false, 0xE1}}
		keys := all[:nk]
		writers := 2 + r.Intn(3)
		readers := 2 + r.Intn(5)
		private := []int{4, 16, 64}[r.Intn(3)]
		if !c.Thorough() && private == 64 {
			private = 24
		}
		var clock int64
		var mu sync.Mutex
		var hist []porcupine.Operation
		var wg sync.WaitGroup
		start := make(chan struct{})
		var privOps int64
		var privErr atomic.Value

		for w := 0; w < writers; w++ {
			wg.Add(1)
			go func(w int, rr *core.RNG) {
				defer wg.Done()
				<-start
				var local []porcupine.Operation
				for k := 0; k < 15; k++ {
					ki := rr.Intn(nk)
					size := (w+1)*1000 + k + 1 // unique per writer and operation
					call := atomic.AddInt64(&clock, 1)
					err := lorawan.RegisterProprietaryMACCommand(keys[ki].up, keys[ki].cid, size)
					ret := atomic.AddInt64(&clock, 1)
					if err != nil {
						privErr.Store(fmt.Errorf("register failed: %v", err))
					}
					local = append(local, porcupine.Operation{ClientId: w, Input: regIn{ki, true, size}, Call: call, Output: 0, Return: ret})
					// calls that register nothing (size 0, refused sizes and CIDs) go through the same
					// function; they use CIDs no recorded operation reads
					if rr.Chance(1, 3) {
						switch rr.Intn(3) {
						case 0:
							lorawan.RegisterProprietaryMACCommand(rr.Bool(), lorawan.CID(0xE8+rr.Intn(2)), 0)
						case 1:
							if lorawan.RegisterProprietaryMACCommand(rr.Bool(), lorawan.CID(0xE8), -1-rr.Intn(3)) == nil {
								privErr.Store(fmt.Errorf("negative size registered"))
							}
						default:
							if lorawan.RegisterProprietaryMACCommand(rr.Bool(), lorawan.CID(rr.Intn(128)), 2) == nil {
								privErr.Store(fmt.Errorf("non-proprietary CID registered"))
							}
						}
					}
					if rr.Chance(1, 2) {
						runtime.Gosched()
					}
				}
				mu.Lock()
				hist = append(hist, local...)
				mu.Unlock()
			}(w, c.RNG("race-writer", h*100+int64(w)))
		}
		for q := 0; q < readers; q++ {
			wg.Add(1)
			go func(q int, rr *core.RNG) {
				defer wg.Done()
				<-start
				var local []porcupine.Operation
				for k := 0; k < 20; k++ {
					ki := rr.Intn(nk)
					call := atomic.AddInt64(&clock, 1)
					_, size, err := lorawan.GetMACPayloadAndSize(keys[ki].up, keys[ki].cid)
					ret := atomic.AddInt64(&clock, 1)
					if err != nil {
						size = 0
					}
					local = append(local, porcupine.Operation{ClientId: writers + q, Input: regIn{ki, false, 0}, Call: call, Output: size, Return: ret})
					if rr.Chance(1, 3) {
						runtime.Gosched()
					}
				}
				mu.Lock()
				hist = append(hist, local...)
				mu.Unlock()
			}(q, c.RNG("race-reader", h*100+int64(q)))
		}
		for p := 0; p < private; p++ {
			wg.Add(1)
			go func(rr *core.RNG) {
				defer wg.Done()
				<-start
				n, err := privateWork(rr, 6, true)
				atomic.AddInt64(&privOps, int64(n))
				if err != nil {
					privErr.Store(err)
				}
			}(c.RNG("race-private", h*1000+int64(p)))
		}
		// several goroutines decode the same received bytes (read-only sharing of an input buffer is legitimate)
		// into values of their own: a decoder that scribbles on its input races with the others
		sharedWires := [][]byte{validFrameBytes(r, 6), validFrameBytes(r, 0), validFrameBytes(r, 2+r.Intn(4)), validFrameBytes(r, 1)}
		sharedID := r.Bytes(16)
		for p := 0; p < 3; p++ {
			wg.Add(1)
			go func() {
				defer wg.Done()
				<-start
				for i := 0; i < 6; i++ {
					for _, w := range sharedWires {
						var v lorawan.PHYPayload
						v.UnmarshalBinary(w)
						var ja lorawan.JoinAcceptPayload
						if len(w) >= 17 {
							ja.UnmarshalBinary(false, w[1:13])
						}
					}
					var e lorawan.EUI64
					var n lorawan.NetID
					var a lorawan.DevAddr
					var k lorawan.AES128Key
					e.UnmarshalBinary(sharedID[:8])
					n.UnmarshalBinary(sharedID[:3])
					a.UnmarshalBinary(sharedID[:4])
					k.UnmarshalBinary(sharedID)
					atomic.AddInt64(&privOps, int64(2*len(sharedWires)+4))
					runtime.Gosched()
				}
			}()
		}
		// goroutines encrypting neighbouring sub-slices of one buffer (lengths that are no multiple of 16, so
		// that padding is involved): each may touch its own slice only, also temporarily
		{
			n := 1 + r.Intn(15) + 16*r.Intn(3)
			shared := r.Bytes(4 * n)
			for p := 0; p < 4; p++ {
				wg.Add(1)
				go func(p int, kk [16]byte) {
					defer wg.Done()
					<-start
					for i := 0; i < 6; i++ {
						part := shared[p*n : (p+1)*n] // spare capacity behind it belongs to the neighbour
						lorawan.EncryptFRMPayload(lorawan.AES128Key(kk), p%2 == 0, lorawan.DevAddr{1, 2, 3, byte(p)}, uint32(i), part)
						if n <= 15 {
							lorawan.EncryptFOpts(lorawan.AES128Key(kk), false, p%2 == 0, lorawan.DevAddr{1, 2, 3, byte(p)}, uint32(i), part)
						}
						atomic.AddInt64(&privOps, 1)
						runtime.Gosched()
					}
				}(p, key16(r))
			}
		}
		// distinct frame values that started life as copies of one decoded template
		// (var a, b = tmpl, tmpl) are decoded into concurrently
		var tmpl lorawan.PHYPayload
		if tmpl.UnmarshalBinary(validFrameBytes(r, 2+r.Intn(4))) == nil {
			for p := 0; p < 3; p++ {
				wg.Add(1)
				go func(v lorawan.PHYPayload, rr *core.RNG) {
					defer wg.Done()
					<-start
					for i := 0; i < 8; i++ {
						wire := validFrameBytes(rr, 2+rr.Intn(4))
						if err := v.UnmarshalBinary(wire); err != nil {
							privErr.Store(fmt.Errorf("valid frame %x refused: %v", wire, err))
							return
						}
						if back, err := v.MarshalBinary(); err != nil || !bytes.Equal(back, wire) {
							privErr.Store(fmt.Errorf("frame decoded into a copy of a template re-encodes to %x (err %v), was %x", back, err, wire))
							return
						}
						atomic.AddInt64(&privOps, 2)
						if i%2 == 0 {
							runtime.Gosched()
						}
					}
				}(tmpl, c.RNG("race-template", h*10+int64(p)))
			}
		}
		close(start)
		wg.Wait()
		c.Eval(int64(len(hist)) + privOps)
		c.Count("race.ops", int64(len(hist))+privOps)
		c.Count("race.registry-ops", int64(len(hist)))
		c.Count("race.histories", 1)
		if e := privErr.Load(); e != nil {
			c.Violate("C10|concurrent|operation-failed", "%v", e)
		}

		// overlaps and observed values
		overlaps := 0
		for i := range hist {
			for j := i + 1; j < len(hist); j++ {
				a, b := hist[i], hist[j]
				if a.Input.(regIn).Key == b.Input.(regIn).Key && a.Call < b.Return && b.Call < a.Return {
					overlaps++
				}
			}
		}
		c.Count("race.overlaps", int64(overlaps))
		seen := map[int]bool{}
		for _, o := range hist {
			if in := o.Input.(regIn); !in.Write {
				seen[o.Output.(int)] = true
				c.Shape("observed", h, in.Key, o.Output.(int))
			}
		}
		c.Count("race.distinct-values-read", int64(len(seen)))

		res, info := porcupine.CheckOperationsVerbose(regModel10, hist, 60*time.Second)
		switch res {
		case porcupine.Ok:
			c.Count("race.linearizable-histories", 1)
		case porcupine.Unknown:
			c.Count("race.checker-timeouts", 1)
			c.Note("porcupine timed out on a history (inconclusive for that history)")
		default:
			_ = info
			sort.Slice(hist, func(i, j int) bool { return hist[i].Call < hist[j].Call })
			var lines []string
			for _, o := range hist {
				lines = append(lines, fmt.Sprintf("c%d [%d,%d] %s", o.ClientId, o.Call, o.Return, regModel10.DescribeOperation(o.Input, o.Output)))
				if len(lines) > 60 {
					break
				}
			}
			c.Violate("C10|registry-not-linearizable", "recorded registry history is not linearizable against a last-write register per (direction, CID):\n%v", lines)
		}
		if c.WantSample("race-history") {
			sorted := append([]porcupine.Operation{}, hist...)
			sort.Slice(sorted, func(i, j int) bool { return sorted[i].Call < sorted[j].Call })
			var excerpt []string
			for _, o := range sorted {
				if len(excerpt) >= 14 {
					break
				}
				excerpt = append(excerpt, fmt.Sprintf("client%d [%d,%d] %s", o.ClientId, o.Call, o.Return, regModel10.DescribeOperation(o.Input, o.Output)))
			}
			c.Sample("race-history", map[string]interface{}{"history_excerpt": excerpt, "keys": nk, "writers": writers, "readers": readers, "private_goroutines": private, "registry_ops": len(hist), "overlapping_pairs": overlaps, "distinct_values_read": len(seen), "gomaxprocs": runtime.GOMAXPROCS(0)})
		}
	}
	lorawan.VerifResetProprietary()
}
