package mon

import (
	"bytes"
	"encoding/hex"
	"fmt"
	"reflect"

	"github.com/brocaar/lorawan"

	"lwverif/core"
	"lwverif/spec"
)

func init() {
	core.Register(&core.Property{
		ID:   "C06",
		Rule: "every MAC payload layout of harness/spec/wire.go (29 payloads): all 2^8 / 2^16 byte strings for payloads of <= 2 bytes (complete), boundary patterns (all-zero, all-one, every single bit) + seeded random strings for 3-5 byte payloads; for each byte string the table decodes the field tuple, the tuple is stored into the library struct by reflection and MarshalBinary must give the table's canonical bytes (every in-range tuple must be accepted), and UnmarshalBinary of the raw string must give the table's field values with RFU bits ignored. Also: all 256 MHDR and FCtrl bytes, all 256 DLSettings bytes, the (direction, CID 0..255) size/type registry, decode-edit-re-encode sequences on data frames, and generated FHDR / data frames / join-request / rejoin / join-accept / CFList values against the spec model's own serialisers in both directions. Distinct = (structure, direction, byte-string class).",
		Assumptions: []string{
			"layout tables transcribed from LoRaWAN 1.0.4 / 1.1 §4-§6 in harness/spec/wire.go and crypto.go",
			"not asserted (revisions disagree): RFU masking of DutyCycleReq.MaxDCycle, acceptance of ForceRejoinReq.RejoinType=1, Version.Minor > 1, DeviceMode class 1",
		},
		MinEvals: 1000,
		Run:      runC06,
	})
}

// c06Payload checks one byte string against one layout in both directions.
func c06Payload(c *core.Ctx, l *spec.Layout, b []byte, class string) {
	vals := l.Decode(b)
	canon, err := l.Encode(vals)
	if err != nil {
		panic(fmt.Sprintf("harness: table cannot re-encode its own decode of %s: %v", l.Name, err))
	}
	allSure := true
	for i, f := range l.Fields {
		if !f.Sure(vals[i]) {
			allSure = false
		}
	}
	// ---- encode direction
	pl := macCtor[l.Uplink][l.CID]()
	if err := core.Fill(pl, vals); err != nil {
		panic(fmt.Sprintf("harness table/struct mismatch for %s: %v", l.Name, err))
	}
	var got []byte
	c.Eval(1)
	if p, msg := core.Guard(func() { got, err = pl.MarshalBinary() }); p {
		c.Violate("C06|mac|"+l.Name+"|encode-panic", "%s: %s", core.Dump(pl), msg)
	} else if err != nil {
		if allSure {
			c.Violate("C06|mac|"+l.Name+"|encode-refused", "in-range value refused: %v | %s", err, core.Dump(pl))
		}
	} else if !bytes.Equal(got, canon) {
		c.Violate("C06|mac|"+l.Name+"|encode-bytes", "%s encodes to %x, the specification layout gives %x", core.Dump(pl), got, canon)
	}
	// through MACCommand (CID prefix)
	if allSure {
		mc := lorawan.MACCommand{CID: lorawan.CID(l.CID), Payload: pl}
		c.Eval(1)
		if gb, err := mc.MarshalBinary(); err == nil && !bytes.Equal(gb, append([]byte{l.CID}, canon...)) {
			c.Violate("C06|mac|"+l.Name+"|command-bytes", "MACCommand encodes to %x, want %x%x", gb, []byte{l.CID}, canon)
		}
	}
	// ---- decode direction (RFU bits of b are arbitrary)
	dp := macCtor[l.Uplink][l.CID]()
	c.Eval(1)
	if p, msg := core.Guard(func() { err = dp.UnmarshalBinary(append([]byte{}, b...)) }); p {
		c.Violate("C06|mac|"+l.Name+"|decode-panic", "%x: %s", b, msg)
		return
	}
	if err != nil {
		c.Violate("C06|mac|"+l.Name+"|decode-refused", "%x: %v", b, err)
		return
	}
	gv, err := core.Flatten(dp)
	if err != nil || len(gv) != len(vals) {
		panic(fmt.Sprintf("harness table/struct mismatch for %s: %v", l.Name, err))
	}
	for i, f := range l.Fields {
		if gv[i] != vals[i] {
			c.Violate("C06|mac|"+l.Name+"|decode|"+f.Name, "bytes %x: %s = %d, the specification layout gives %d (RFU mask %x)", b, f.Name, gv[i], vals[i], l.RFUMask())
		}
	}
	c.Shape("mac", l.Name, class)
}

func runC06(c *core.Ctx) {
	// ------------------------------------------------ MAC payloads
	for li, l := range spec.MACLayouts {
		if macCtor[l.Uplink][l.CID] == nil {
			panic("harness: no constructor for " + l.Name)
		}
		mon := "mac-" + l.Name
		if l.Size <= 2 {
			total := 1 << uint(8*l.Size)
			const chunk = 4096
			for base := 0; base < total; base += chunk {
				if !c.Mine(mon, int64(base/chunk)) {
					continue
				}
				for v := base; v < base+chunk && v < total; v++ {
					b := make([]byte, l.Size)
					for k := 0; k < l.Size; k++ {
						b[k] = byte(v >> uint(8*k))
					}
					c06Payload(c, l, b, fmt.Sprint(v>>uint(8*l.Size-4)))
				}
			}
			if c.Batch == 0 && !c.Replay {
				c.Exhaustive(fmt.Sprintf("%s: all %d byte strings", l.Name, total))
			}
			continue
		}
		// patterns
		if c.Mine(mon, 0) {
			pats := [][]byte{bytes.Repeat([]byte{0}, l.Size), bytes.Repeat([]byte{0xff}, l.Size), bytes.Repeat([]byte{0x80}, l.Size), bytes.Repeat([]byte{0x7f}, l.Size)}
			for bit := 0; bit < 8*l.Size; bit++ {
				b := make([]byte, l.Size)
				b[bit/8] = 1 << uint(bit%8)
				pats = append(pats, b)
				b2 := bytes.Repeat([]byte{0xff}, l.Size)
				b2[bit/8] ^= 1 << uint(bit%8)
				pats = append(pats, b2)
			}
			for _, b := range pats {
				c06Payload(c, l, b, "pattern")
			}
			if c.WantSample("mac") && li == 2 {
				b := []byte{0x53, 0x01, 0x80, 0x21}
				c.Sample("mac", map[string]interface{}{"layout": l.Name, "bytes": hex.EncodeToString(b), "fields": l.Decode(b)})
			}
		}
		n := c.N(20000, 20000000)
		const chunk = 1000
		for blk := int64(1); blk <= n/chunk; blk++ {
			if !c.Mine(mon, blk) {
				continue
			}
			r := c.RNG(mon, blk)
			for k := 0; k < chunk; k++ {
				b := r.Bytes(l.Size)
				// bias frequency fields towards their edges now and then
				if k%16 == 0 {
					for i := range b {
						b[i] = []byte{0, 0xff, 0x1b, 0xb7, 0x80}[r.Intn(5)]
					}
				}
				c06Payload(c, l, b, "random")
			}
		}
	}

	// ------------------------------------------------ registry sizes and types
	if c.Whole("registry") {
		lorawan.VerifResetProprietary()
		sweep := func(when string) {
			for _, up := range []bool{true, false} {
				for cid := 0; cid < 256; cid++ {
					pl, size, err := lorawan.GetMACPayloadAndSize(up, lorawan.CID(cid))
					want := spec.MACLayout(up, byte(cid))
					c.Eval(1)
					if want == nil {
						// no payload in the specification: "unknown" (the library's answer) and "known, 0 bytes, no
						// payload" say the same thing; a payload of some size does not
						if xs, extra := spec.ExtraSizes[up][byte(cid)]; extra && err == nil && size == xs {
							c.Count("registry.entries-beyond-the-specification-table", 1)
						} else if err == nil && (size != 0 || pl != nil) {
							c.Violate(fmt.Sprintf("C06|registry|unexpected|up=%v|cid=%#x", up, cid), "%s: (uplink=%v, CID %#x) has a registered payload of %d bytes; the specification defines none", when, up, cid, size)
						}
					} else if err != nil || size != want.Size || reflect.TypeOf(pl) != reflect.TypeOf(macCtor[up][byte(cid)]()) {
						c.Violate(fmt.Sprintf("C06|registry|size|up=%v|cid=%#x", up, cid), "%s: (uplink=%v, CID %#x): size %d type %T err %v; specification: %s, %d bytes", when, up, cid, size, pl, err, want.Name, want.Size)
					}
					c.Shape("registry", up, cid, when)
				}
			}
		}
		sweep("fresh process")
		// the standard part of the registry is not at the mercy of registration calls that are refused
		// (a standard CID, a negative size) or that register nothing (size 0)
		for _, up := range []bool{true, false} {
			for cid := 0; cid < 256; cid++ {
				for _, size := range []int{-1, 0, 4} {
					if cid >= 0x80 && size > 0 {
						continue
					}
					// whether such a call is refused is not the point (the library does refuse a standard CID
					// and a negative size): the sweep below must find the standard registry as the table has it
					_ = lorawan.RegisterProprietaryMACCommand(up, lorawan.CID(cid), size)
				}
			}
		}
		sweep("after refused registrations")
		lorawan.VerifResetProprietary()
		c.Exhaustive("registry: 2 directions x 256 CIDs, before and after refused registrations")
	}

	// ------------------------------------------------ MHDR, FCtrl, DLSettings: all 256 bytes
	if c.Whole("bytes256") {
		for v := 0; v < 256; v++ {
			b := byte(v)
			var h lorawan.MHDR
			c.Eval(3)
			if err := h.UnmarshalBinary([]byte{b}); err != nil || byte(h.MType) != b>>5 || byte(h.Major) != b&3 {
				c.Violate("C06|mhdr|decode", "MHDR %#02x -> %+v (%v)", b, h, err)
			}
			if v < 32 {
				hh := lorawan.MHDR{MType: lorawan.MType(v >> 2), Major: lorawan.Major(v & 3)}
				if gb, err := hh.MarshalBinary(); err != nil || len(gb) != 1 || gb[0] != byte(v>>2)<<5|byte(v&3) {
					c.Violate("C06|mhdr|encode", "MHDR %+v -> %x (%v)", hh, gb, err)
				}
			}
			var fc lorawan.FCtrl
			if err := fc.UnmarshalBinary([]byte{b}); err != nil || fc.ADR != (b&0x80 != 0) || fc.ADRACKReq != (b&0x40 != 0) || fc.ACK != (b&0x20 != 0) || (fc.FPending || fc.ClassB) != (b&0x10 != 0) { // without a direction either flag may carry bit 4
				c.Violate("C06|fctrl|decode", "FCtrl %#02x -> %+v (%v)", b, fc, err)
			}
			// FCtrl through an FHDR with v&15 bytes of FOpts
			fh := lorawan.FHDR{FCtrl: lorawan.FCtrl{ADR: b&0x80 != 0, ADRACKReq: b&0x40 != 0, ACK: b&0x20 != 0, FPending: b&0x10 != 0, ClassB: b&0x10 != 0}}
			if n := int(b & 15); n > 0 {
				fh.FOpts = []lorawan.Payload{&lorawan.DataPayload{Bytes: bytes.Repeat([]byte{0xaa}, n)}}
			}
			if gb, err := fh.MarshalBinary(); err != nil || len(gb) != 7+int(b&15) || gb[4] != b {
				c.Violate("C06|fctrl|encode", "FHDR with flags/FOptsLen of %#02x encodes FCtrl as %x (%v)", b, gb, err)
			}
			var dl lorawan.DLSettings
			want := spec.DLSettingsLayout.Decode([]byte{b})
			if err := dl.UnmarshalBinary([]byte{b}); err != nil {
				c.Violate("C06|dlsettings|decode", "%#02x: %v", b, err)
			} else if gv, _ := core.Flatten(dl); gv[0] != want[0] || gv[1] != want[1] || gv[2] != want[2] {
				c.Violate("C06|dlsettings|decode", "DLSettings %#02x -> %+v, layout gives %v", b, dl, want)
			}
			dl2 := lorawan.DLSettings{OptNeg: want[0] == 1, RX2DataRate: uint8(want[1]), RX1DROffset: uint8(want[2])}
			if gb, err := dl2.MarshalBinary(); err != nil || len(gb) != 1 || gb[0] != b {
				c.Violate("C06|dlsettings|encode", "%+v -> %x (%v), want %02x", dl2, gb, err, b)
			}
			if txt, err := dl2.MarshalText(); err != nil || string(txt) != hex.EncodeToString([]byte{b}) {
				c.Violate("C06|dlsettings|text", "%+v -> %q (%v)", dl2, txt, err)
			}
			c.Shape("bytes256", v)
		}
		c.Exhaustive("MHDR / FCtrl / DLSettings: all 256 bytes")
	}

	// ------------------------------------------------ decode, modify, re-encode (a forwarding network server does this)
	m := c.N(10000, 5000000)
	for i := int64(0); i < m; i++ {
		if !c.Mine("frames-reencode", i) {
			continue
		}
		r := c.RNG("frames-reencode", i)
		d1 := genDataCase(r, anyData())
		o := anyData()
		o.mtype = int(d1.Spec.MType)
		d2 := genDataCase(r, o)
		var mic [4]byte
		r.Fill(mic[:])
		var phy lorawan.PHYPayload
		c.Eval(2)
		if err := phy.UnmarshalBinary(append(d1.Spec.Msg(), mic[:]...)); err != nil {
			c.Violate("C06|frame|data|decode-refused", "%x: %v", d1.Spec.Msg(), err)
			continue
		}
		mp := phy.MACPayload.(*lorawan.MACPayload)
		// keep the decoded header fields of d1, take FOpts / FPort / FRMPayload of d2
		mp.FHDR.FOpts = clonePayloads(d2.FOpts)
		mp.FPort = nil
		if d2.Spec.FPort >= 0 {
			p := uint8(d2.Spec.FPort)
			mp.FPort = &p
		}
		mp.FRMPayload = clonePayloads(d2.FRM)
		want := d1.Spec
		want.FCnt &= 0xffff
		want.FOpts, want.FPort, want.FRMPayload = d2.Spec.FOpts, d2.Spec.FPort, d2.Spec.FRMPayload
		gb, err := phy.MarshalBinary()
		if err != nil || !bytes.Equal(gb, append(want.Msg(), mic[:]...)) {
			c.Violate("C06|frame|data|reencode-after-edit", "decoded a frame with %d bytes of FOpts, replaced FOpts/FPort/FRMPayload (new FOpts %d bytes) and re-encoded:\n library %x (%v)\n spec    %x", len(d1.Spec.FOpts), len(d2.Spec.FOpts), gb, err, append(want.Msg(), mic[:]...))
		}
		c.Shape("reencode", len(d1.Spec.FOpts), len(d2.Spec.FOpts), d2.portKind)
	}

	// ------------------------------------------------ spec bytes decoded into re-used values
	var reusedPHY lorawan.PHYPayload
	var reusedMP lorawan.MACPayload
	k := c.N(10000, 5000000)
	for i := int64(0); i < k; i++ {
		if !c.Mine("frames-reused-target", i) {
			continue
		}
		r := c.RNG("frames-reused-target", i)
		o := anyData()
		o.maxFRM = 40
		d := genDataCase(r, o)
		var mic [4]byte
		r.Fill(mic[:])
		wire := append(d.Spec.Msg(), mic[:]...)
		chk := func(what string, mp *lorawan.MACPayload, err error) {
			c.Eval(1)
			if err != nil {
				c.Violate("C06|frame|data|decode-refused|"+what, "%x: %v", wire, err)
				return
			}
			fo, _ := payloadBytes(mp.FHDR.FOpts)
			fp, _ := payloadBytes(mp.FRMPayload)
			if [4]byte(mp.FHDR.DevAddr) != d.Spec.DevAddr || mp.FHDR.FCnt != d.Spec.FCnt&0xffff || !bytes.Equal(fo, d.Spec.FOpts) || !bytes.Equal(fp, d.Spec.FRMPayload) ||
				(mp.FPort == nil) != (d.Spec.FPort < 0) || (mp.FPort != nil && int(*mp.FPort) != d.Spec.FPort) {
				c.Violate("C06|frame|data|decode-into-used-value|"+what, "spec bytes %x decoded into a %s value that was used before give %s", wire, what, short(core.Dump(mp), 400))
			}
		}
		err := reusedPHY.UnmarshalBinary(append([]byte{}, wire...))
		mp, _ := reusedPHY.MACPayload.(*lorawan.MACPayload)
		if mp == nil {
			mp = &lorawan.MACPayload{}
		}
		chk("PHYPayload", mp, err)
		err = reusedMP.UnmarshalBinary(d.Spec.Uplink(), append([]byte{}, wire[1:len(wire)-4]...))
		chk("MACPayload", &reusedMP, err)
		c.Shape("reused-target", len(d.Spec.FOpts) > 0, d.portKind)
	}

	// ------------------------------------------------ frames against the spec serialisers
	n := c.N(20000, 10000000)
	for i := int64(0); i < n; i++ {
		if !c.Mine("frames", i) {
			continue
		}
		r := c.RNG("frames", i)
		switch i % 5 {
		case 0, 1:
			d := genDataCase(r, anyData())
			var mic [4]byte
			r.Fill(mic[:])
			phy := d.Lib()
			phy.MIC = lorawan.MIC(mic)
			want := append(d.Spec.Msg(), mic[:]...)
			gb, err := phy.MarshalBinary()
			c.Eval(2)
			if err != nil || !bytes.Equal(gb, want) {
				c.Violate("C06|frame|data|encode", "library %x (%v)\n spec   %x", gb, err, want)
				break
			}
			// decode of the spec bytes
			var out lorawan.PHYPayload
			if err := out.UnmarshalBinary(append([]byte{}, want...)); err != nil {
				c.Violate("C06|frame|data|decode-refused", "%x: %v", want, err)
				break
			}
			mp, _ := out.MACPayload.(*lorawan.MACPayload)
			fo, _ := payloadBytes(mp.FHDR.FOpts)
			fp, _ := payloadBytes(mp.FRMPayload)
			if mp == nil || [4]byte(mp.FHDR.DevAddr) != d.Spec.DevAddr || mp.FHDR.FCnt != d.Spec.FCnt&0xffff || !bytes.Equal(fo, d.Spec.FOpts) || !bytes.Equal(fp, d.Spec.FRMPayload) ||
				(mp.FPort == nil) != (d.Spec.FPort < 0) || (mp.FPort != nil && int(*mp.FPort) != d.Spec.FPort) || [4]byte(out.MIC) != mic {
				c.Violate("C06|frame|data|decode", "spec bytes %x decode to %s", want, short(core.Dump(out), 500))
			}
			// ... and the MAC commands carried in FOpts / on port 0 decode to the values the table gives for
			// each command's own bytes (also inside blocks of the same command)
			if mp != nil && !d.FOptsRaw && len(d.Spec.FOpts) > 0 {
				if err := out.DecodeFOptsToMACCommands(); err != nil {
					c.Violate("C06|frame|data|fopts-commands-refused", "%x: %v", d.Spec.FOpts, err)
				} else if g, w := core.Dump(mp.FHDR.FOpts), core.Dump(d.FOpts); g != w {
					c.Violate("C06|frame|data|fopts-commands", "FOpts %x decode to\n %s\nthe table says\n %s", d.Spec.FOpts, short(g, 500), short(w, 500))
				}
			}
			if mp != nil && d.FRMIsMAC && len(d.Spec.FRMPayload) > 0 {
				if err := out.DecodeFRMPayloadToMACCommands(); err != nil {
					c.Violate("C06|frame|data|port0-commands-refused", "%x: %v", d.Spec.FRMPayload, err)
				} else if g, w := core.Dump(mp.FRMPayload), core.Dump(d.FRM); g != w {
					c.Violate("C06|frame|data|port0-commands", "port-0 payload %x decodes to\n %s\nthe table says\n %s", d.Spec.FRMPayload, short(g, 500), short(w, 500))
				}
			}
			c.Shape("frame-data", d.Spec.MType, len(d.Spec.FOpts), d.portKind)
		case 2:
			je, de, nonce := eui(r), eui(r), uint16(r.U32Edge())
			want := spec.JoinRequestBytes(0, je, de, nonce)[1:]
			pl := lorawan.JoinRequestPayload{JoinEUI: je, DevEUI: de, DevNonce: lorawan.DevNonce(nonce)}
			gb, err := pl.MarshalBinary()
			c.Eval(2)
			if err != nil || !bytes.Equal(gb, want) {
				c.Violate("C06|frame|joinrequest|encode", "library %x spec %x (%v)", gb, want, err)
			}
			var back lorawan.JoinRequestPayload
			if err := back.UnmarshalBinary(true, want); err != nil || back != pl {
				c.Violate("C06|frame|joinrequest|decode", "%x -> %+v (%v)", want, back, err)
			}
			c.Shape("frame-joinrequest")
		case 3:
			var nid [3]byte
			r.Fill(nid[:])
			je, de, cnt := eui(r), eui(r), uint16(r.U32Edge())
			typ := byte(2 * r.Intn(2))
			w02 := spec.Rejoin02Bytes(0, typ, nid, de, cnt)[1:]
			p02 := lorawan.RejoinRequestType02Payload{RejoinType: lorawan.JoinType(typ), NetID: nid, DevEUI: de, RJCount0: cnt}
			gb, err := p02.MarshalBinary()
			c.Eval(4)
			if err != nil || !bytes.Equal(gb, w02) {
				c.Violate("C06|frame|rejoin02|encode", "library %x spec %x (%v)", gb, w02, err)
			}
			var b02 lorawan.RejoinRequestType02Payload
			if err := b02.UnmarshalBinary(true, w02); err != nil || b02 != p02 {
				c.Violate("C06|frame|rejoin02|decode", "%x -> %+v (%v)", w02, b02, err)
			}
			w1 := spec.Rejoin1Bytes(0, 1, je, de, cnt)[1:]
			p1 := lorawan.RejoinRequestType1Payload{RejoinType: 1, JoinEUI: je, DevEUI: de, RJCount1: cnt}
			gb, err = p1.MarshalBinary()
			if err != nil || !bytes.Equal(gb, w1) {
				c.Violate("C06|frame|rejoin1|encode", "library %x spec %x (%v)", gb, w1, err)
			}
			var b1 lorawan.RejoinRequestType1Payload
			if err := b1.UnmarshalBinary(true, w1); err != nil || b1 != p1 {
				c.Violate("C06|frame|rejoin1|decode", "%x -> %+v (%v)", w1, b1, err)
			}
			c.Shape("frame-rejoin", typ)
		case 4:
			ja := genJoinAccept(r)
			sj := specJoinAccept(ja)
			gb, err := ja.MarshalBinary()
			c.Eval(2)
			if err != nil || !bytes.Equal(gb, sj.Payload()) {
				c.Violate("C06|frame|joinaccept|encode", "library %x spec %x (%v)", gb, sj.Payload(), err)
				break
			}
			var back lorawan.JoinAcceptPayload
			if err := back.UnmarshalBinary(false, sj.Payload()); err != nil {
				c.Violate("C06|frame|joinaccept|decode-refused", "%x: %v", sj.Payload(), err)
			} else if d := joinAcceptMatchesBytes(&back, sj.Payload()); d != "" {
				c.Violate("C06|frame|joinaccept|decode|"+d, "%x decodes with a different %s: %s", sj.Payload(), d, core.Dump(back))
			}
			if ja.CFList != nil {
				cb, err := ja.CFList.MarshalBinary()
				if err != nil || !bytes.Equal(cb, sj.CFList) {
					c.Violate("C06|cflist|encode", "library %x spec %x (%v)", cb, sj.CFList, err)
				}
				// a CFList with arbitrary RFU padding / type decodes per the layout
				raw := r.Bytes(16)
				raw[15] = byte(r.Intn(2))
				var cf lorawan.CFList
				if err := cf.UnmarshalBinary(raw); err != nil {
					c.Violate("C06|cflist|decode-refused", "%x: %v", raw, err)
				} else {
					jj := lorawan.JoinAcceptPayload{CFList: &cf}
					full := append(make([]byte, 12), raw...)
					if d := joinAcceptMatchesBytes(&jj, full); d != "" && d != "JoinNonce" && d != "NetID" && d != "DevAddr" && d != "DLSettings" && d != "RXDelay" {
						c.Violate("C06|cflist|decode|"+d, "CFList %x decodes with a different %s: %s", raw, d, core.Dump(cf))
					}
				}
				c.Shape("cflist", ja.CFList.CFListType)
			}
			c.Shape("frame-joinaccept", ja.CFList != nil)
		}
	}
}
