#!/bin/bash
# usage: seed-regress.sh [tag...]    (self-test of the monitors, not a check)
# Re-runs every kept seeded breakage (seeded/<tag>/patch.diff) against the quick check of its own
# property, in throw-away worktrees (devcheck.sh), and reports the ones that are no longer caught.
cd /verif || exit 2
tags=("$@"); [ ${#tags[@]} -eq 0 ] && tags=($(ls seeded))
out=${OUT:-/tmp/seed-regress.log}; : > "$out"
run() { t=$1; id=${t:0:3}; r=$(./devcheck.sh seeded/$t/patch.diff $id 2>&1 | grep '^== ' | head -1); echo "$t $r" >> "$out"; }
n=0
for t in "${tags[@]}"; do
  [ -f seeded/$t/patch.diff ] || continue
  run $t &
  n=$((n+1)); if [ $((n % ${JOBS:-3})) -eq 0 ]; then wait; fi
done
wait
echo "caught: $(grep -c 'exit=1' "$out")  not caught: $(grep -vc 'exit=1' "$out")"
grep -v 'exit=1' "$out"
