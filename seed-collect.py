#!/usr/bin/env python3
"""Verify and archive seeded breakages produced by independent sub-agents.

For every /tmp/seed/<ID>/SEED/<x>/ (patch.diff [or patch.rebased.diff], demo_test.go, meta.json):
  1. in a scratch worktree of /repo's HEAD: the demonstration passes on the clean tree,
     the patch applies and builds, the unedited suite still passes (except TestAsyncClient),
     the demonstration fails with the patch;
  2. the patch is applied to /repo's working tree, the quick check of the property (and any
     extra checks named in EXTRA) is run, and the tree is restored;
  3. everything is recorded under /verif/seeded/<ID><x>/.
Not a registered check: this is how the monitors themselves are validated.
"""
import json, os, re, shutil, subprocess, sys

ENV = dict(os.environ, GOFLAGS="-mod=mod", GOPROXY="off", GOSUMDB="off", GOTOOLCHAIN="local")
WORK = "/tmp/sv/work"
SEEDROOT = os.environ.get("SEEDROOT", "/tmp/seed")   # round 1: /tmp/seed (tags a, b); round 2: /tmp/seed2 (tags c, d)
TAGMAP = {"/tmp/seed": {"a": "a", "b": "b"}, "/tmp/seed2": {"a": "c", "b": "d"}, "/tmp/seed3": {"a": "e", "b": "f"}, "/tmp/seed4": {"a": "g", "b": "h"}, "/tmp/seed5": {"a": "i", "b": "j"}, "/tmp/seed6": {"a": "k", "b": "l"}, "/tmp/seed7": {"a": "m", "b": "n"}, "/tmp/seed8": {"a": "o", "b": "p"}, "/tmp/seed9": {"a": "q", "b": "r"}, "/tmp/seed10": {"a": "s", "b": "t"}, "/tmp/seed11": {"a": "u", "b": "v"}, "/tmp/seed12": {"a": "w", "b": "x"}, "/tmp/seed13": {"a": "y", "b": "z"}}[SEEDROOT]
EXTRA = {"C01y": [], "C02y": [], "C03y": [], "C04y": [], "C05y": [], "C06y": [], "C07y": [], "C08y": [], "C09y": [], "C10y": [], "C11y": [], "C12y": [], "C13y": [], "C14y": [], "C15y": [], "C16y": [], "C17y": [], "C18y": [], "C19y": [], "C20y": [], "C01w": [], "C02w": [], "C03w": [], "C04w": [], "C05w": [], "C06w": [], "C07w": [], "C08w": [], "C09w": [], "C10w": [], "C11w": [], "C12w": [], "C13w": [], "C14w": [], "C15w": [], "C16w": [], "C17w": [], "C18w": [], "C19w": [], "C20w": [], "C02u": [], "C04u": [], "C06u": [], "C08u": [], "C09u": [], "C11u": [], "C14u": [], "C17u": [], "C01s": ["C08"], "C03s": [], "C05s": ["C02"], "C07s": [], "C10s": ["C03"], "C12s": [], "C13s": ["C12"], "C15s": [], "C16s": [], "C18s": [], "C19s": [], "C20s": [], "C11c": [], "C01c": ["C06", "C08"], "C01d": ["C06", "C08"], "C05c": ["C02", "C03"], "C05d": ["C02", "C03"], "C08c": ["C01", "C09"], "C08d": ["C01", "C09"], "C09c": ["C08", "C10"], "C09d": ["C08", "C10"],
         "C06c": ["C01", "C07"], "C06d": ["C01", "C07"], "C07c": ["C06", "C01"], "C07d": ["C06", "C01"], "C10c": ["C09"], "C10d": ["C09"], "C12c": ["C13"], "C12d": ["C13"], "C13c": ["C12", "C15"], "C13d": ["C12", "C15"],
         "C14c": ["C15"], "C14d": ["C15"], "C15c": ["C14", "C13"], "C15d": ["C14", "C13"], "C02c": ["C05"], "C02d": ["C05"], "C03c": ["C05"], "C03d": ["C05"], "C04c": ["C16"], "C04d": ["C16"], "C16c": ["C04", "C17"], "C16d": ["C04", "C17"],
         "C17c": ["C16"], "C17d": ["C16"], "C18c": ["C09", "C10"], "C18d": ["C09", "C10"],"C01b": ["C10", "C05"], "C05b": ["C10", "C01"], "C09b": ["C10"], "C06b": ["C01"], "C15b": ["C06", "C07"], "C02a": ["C05"], "C05a": ["C02"], "C03a": ["C05"]}


def sh(cmd, cwd=None, timeout=1800):
    p = subprocess.run(cmd, shell=True, cwd=cwd, env=ENV, capture_output=True, text=True, timeout=timeout)
    return p.returncode, p.stdout + p.stderr


def fresh_worktree():
    sh(f"git -C /repo worktree remove --force {WORK}")
    shutil.rmtree(WORK, ignore_errors=True)
    rc, out = sh(f"git -C /repo worktree add -q --detach {WORK} HEAD")
    assert rc == 0, out


def suite(cwd):
    rc, out = sh("go test -vet=off -count=1 -json ./... 2>/dev/null", cwd=cwd)
    res = {}
    for l in out.splitlines():
        try:
            e = json.loads(l)
        except Exception:
            continue
        if e.get("Action") in ("pass", "fail") and e.get("Test"):
            res[e["Package"] + "::" + e["Test"]] = e["Action"]
    base = json.load(open("/root/.vp/BASELINE.json"))["stable_pass"]
    missing = [t for t in base if res.get(t) != "pass"]
    return missing, len(res)


def main():
    only = sys.argv[1:]
    os.makedirs("/verif/seeded", exist_ok=True)
    summary = []
    for i in range(1, 21):
        pid = "C%02d" % i
        for x in "ab":
            tag = pid + TAGMAP[x]
            if only and tag not in only:
                continue
            src = f"{SEEDROOT}/{pid}/SEED/{x}"
            if not os.path.isdir(src):
                continue
            meta = json.load(open(f"{src}/meta.json"))
            patch = f"{src}/patch.rebased.diff" if os.path.exists(f"{src}/patch.rebased.diff") else f"{src}/patch.diff"
            rebased = patch.endswith("rebased.diff")
            rec = {"id": tag, "property": pid, "breaks": meta.get("summary", ""), "needs_to_manifest": meta.get("needs_to_manifest", ""),
                   "files_changed": meta.get("files_changed", []), "source": "independent sub-agent given only the property text and a scratch worktree",
                   "rebased_onto_fix_commits": rebased, "verified": {}}
            fresh_worktree()
            rc, out = sh(f"git apply --check {patch}", cwd=WORK)
            if rc != 0:
                rec["verified"]["applies"] = False
                rec["verified"]["note"] = out[-400:]
                summary.append((tag, "DOES-NOT-APPLY", ""))
                print(tag, "does not apply")
                continue
            ddir = meta.get("demo_package_dir", ".")
            ddir = re.sub(r"^/tmp/seed\d*/C\d\d/?", "", ddir).strip("/") or "."
            if ddir.startswith("(") or " " in ddir:
                ddir = "."
            demo_src = open(f"{src}/demo_test.go").read()
            m = re.search(r"^package\s+(\w+)", demo_src, re.M)
            pkg = m.group(1)
            # place by package name when the meta is unclear
            guess = {"lorawan": ".", "lorawan_test": ".", "band": "band", "band_test": "band", "backend": "backend", "backend_test": "backend",
                     "joinserver": "backend/joinserver", "joinserver_test": "backend/joinserver", "gps": "gps", "gps_test": "gps", "airtime": "airtime", "airtime_test": "airtime",
                     "fragmentation": "applayer/fragmentation", "fragmentation_test": "applayer/fragmentation", "multicastsetup": "applayer/multicastsetup", "multicastsetup_test": "applayer/multicastsetup",
                     "clocksync": "applayer/clocksync", "firmwaremanagement": "applayer/firmwaremanagement"}
            if not os.path.isdir(os.path.join(WORK, ddir)) or (pkg in guess and guess[pkg] != ddir):
                ddir = guess.get(pkg, ddir)
            tests = re.findall(r"^func (Test\w+)\(", demo_src, re.M)
            race = "-race" in json.dumps(meta)
            dst = os.path.join(WORK, ddir, "zz_seed_demo_test.go")
            run = f"go test -vet=off -count=1 {'-race ' if race else ''}-run '^({'|'.join(tests)})$' ./{ddir}"
            shutil.copy(f"{src}/demo_test.go", dst)
            rc_clean, out_clean = sh(run, cwd=WORK)
            os.remove(dst)
            rc, out = sh(f"git apply {patch} && go build ./...", cwd=WORK)
            builds = rc == 0
            missing, ntests = suite(WORK)
            shutil.copy(f"{src}/demo_test.go", dst)
            rc_pat, out_pat = sh(run, cwd=WORK)
            rec["verified"] = {"applies": True, "demo_cmd": run, "demo_passes_on_clean_tree": rc_clean == 0, "builds_with_patch": builds,
                               "suite_with_patch": {"tests_seen": ntests, "baseline_tests_not_passing": missing}, "demo_fails_with_patch": rc_pat != 0,
                               "demo_output_with_patch_tail": out_pat[-600:]}
            ok = rc_clean == 0 and builds and not missing and rc_pat != 0
            rec["kept"] = ok
            # our checks
            NEIGH = {"C01": ["C06", "C08", "C10"], "C02": ["C05"], "C03": ["C05", "C10"], "C04": ["C16"], "C05": ["C02", "C03"], "C06": ["C01", "C07"], "C07": ["C06"], "C08": ["C01", "C09", "C10"], "C09": ["C08", "C10"],
                     "C10": ["C09"], "C12": ["C13"], "C13": ["C12"], "C14": ["C15"], "C15": ["C14", "C13"], "C16": ["C04", "C17"], "C17": ["C16"], "C18": ["C09", "C10"]}
            checks = [pid] + (EXTRA.get(tag) if tag in EXTRA else NEIGH.get(pid, []))
            caught = {}
            sh("git -C /repo checkout -- .")
            rc, out = sh(f"git -C /repo apply {patch}")
            if rc == 0:
                for ck in checks:
                    crc, cout = sh(f"./check.sh {ck} quick", cwd="/verif", timeout=3600)
                    keys = re.findall(r"key=(\S+)", cout)
                    caught[ck] = {"exit": crc, "violation_lines": cout.count("\nVIOLATION") + (1 if cout.startswith("VIOLATION") else 0), "first_keys": keys[:4]}
            sh("git -C /repo checkout -- .")
            rec["checks"] = caught
            rec["caught_by"] = [k for k, v in caught.items() if v["exit"] == 1 and v["violation_lines"] > 0]
            out_dir = f"/verif/seeded/{tag}"
            os.makedirs(out_dir, exist_ok=True)
            shutil.copy(patch, f"{out_dir}/patch.diff")
            shutil.copy(f"{src}/demo_test.go", f"{out_dir}/demo_test.go")
            rec["demo_package_dir"] = ddir
            json.dump(rec, open(f"{out_dir}/meta.json", "w"), indent=1)
            summary.append((tag, "kept" if ok else "REJECTED", ",".join(rec["caught_by"]) or "MISSED"))
            print(tag, "kept" if ok else f"REJECTED clean={rc_clean} builds={builds} missing={len(missing)} patched={rc_pat}", "caught by:", rec["caught_by"], flush=True)
    sh(f"git -C /repo worktree remove --force {WORK}")
    sh("git -C /repo checkout -- .")
    shutil.rmtree("/verif/replays", ignore_errors=True)
    print(json.dumps(summary))


main()
