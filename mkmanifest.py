#!/usr/bin/env python3
# regenerates MANIFEST.json from the table below (kept in one place so that the
# manifest stays valid and "not_applicable" stays current)
import json,subprocess
props=[json.loads(l) for l in open('/verif/properties.jsonl')]
HOOK_COMMITS=["dc2fd90"]
# id -> (technique, level text, level note)
DONE={
 "C16":("runtime monitoring + Go race detector: the real http.Handler driven through httptest recorders; every answer judged by an independent spec end-device model (decrypt, MIC, echo, key derivation, RFC 3394 unwrap); concurrent pass with per-request judgement",
        "held on the executions observed; known finding: rejoin answers carry 1.0-style session keys (pinned by the repository's own test); the concurrent pass reports the overlapping requests actually observed",
        "trusted: crypto/aes, harness CMAC / key-wrap / device model (LoRaWAN 1.0.x + 1.1 join procedures)"),
 "C14":("runtime monitoring: independent end-device model of LinkADRReq channel-mask semantics applied to the payloads the real planner generates, over seeded network histories (with interleaved observations) and enumerated / structured device sets",
        "held on the executions observed; all 2^n device subsets for plans of <= 12 channels (<= 16 thorough), sampled + structured subsets for the 72/96-channel plans",
        "trusted: device model in harness/spec/linkadr.go"),
 "C15":("runtime monitoring: lock-step sequential model of the channel plan compared after every operation of seeded histories with hostile arguments; encode->decode experiments pushing every band output through the MAC-layer encoders",
        "held on the executions observed; known findings: ISM2400 frequencies are not encodable by 5 MAC structures",
        "trusted: the sequential channel-plan model in mon/c15.go; regional defaults from harness/spec/regional.go"),
 "C18":("runtime monitoring: inverse / size / trailing-bytes / stream oracles over encode-first (bit-width table) and decode-first (all first bytes) generators for every application-layer payload type; AES reference derivation for multicast keys",
        "held on the executions observed; known finding: DevVersionReq cannot be followed by another command (pinned by the repository's own test)",
        "trusted: bit-width table of TS003-TS006 in mon/c18.go; crypto/aes"),
 "C05":("runtime monitoring: recorded sender/receiver call histories judged by a content-equality oracle and a tamper oracle (independent spec MIC over the received bytes with the receiver's parameters), incl. a receiver re-using its PHYPayload value",
        "held on the executions observed (thorough: every bit of every generated frame is flipped)",
        "trusted: crypto/aes, harness CMAC/keystream; key usage per LoRaWAN 1.1"),
 "C10":("runtime monitoring + Go race detector: aliasing / input-unchanged / guard-byte / stale-state / kept-copy / independent-values (reflection scribble) memory-effect monitors on every decoder type, band-instance isolation histories, and a -race workload (shared input buffers, template copies, private crypto judged by models) whose registry operations are recorded and checked for linearizability with porcupine",
        "held on the executions observed: guard sweep complete for lengths 0..64 x alignments 0..15; concurrent part reports the histories, overlapping operation pairs and race-detector runs actually observed (not all interleavings)",
        "trusted: Go race detector (reports only races that occur in the observed executions), porcupine v1.3.0"),
 "C08":("runtime monitoring: canonicality oracle (decode accepted => re-encode succeeds and is byte-identical => re-decode equal) over uniform, structure-aware mutated and guard-boundary byte strings; per-MType acceptance thresholds",
        "held on the executions observed (>= 300 accepted inputs per MType or the run is inconclusive)",
        "trusted: none beyond the harness generators; frames with MHDR RFU bits set are outside the property"),
 "C09":("runtime monitoring: every decoder entry point called under recover() on hostile inputs (canary-guarded buffers, half of them with capacity == length; complete grid of short inputs), decode while registrations happen, per-case hang watchdog with single-case confirmation, memory blow-up guard, allocation/time scaling monitor (4 KiB vs 128 KiB per entry point)",
        "held on the executions observed for 156 entry points; 'linear time' is observed as bounded progress plus allocation and fastest-of-three time ratios for 32x larger inputs",
        "trusted: Go runtime panics/recover semantics; a fatal (unrecoverable) error is attributed through the progress marker"),
 "C06":("runtime monitoring: table-driven reference model of every wire layout compared with the real Marshal/Unmarshal in both directions; complete byte-string sweeps for <= 2-byte payloads, MHDR, FCtrl, DLSettings and the (direction, CID) registry; decode-edit-re-encode sequences",
        "held on the executions observed; payloads of <= 2 bytes, the 256-value header bytes and the registry are enumerated completely, longer payloads by boundary patterns + seeded random strings",
        "trusted: layout tables in harness/spec/wire.go transcribed from LoRaWAN 1.0.4/1.1; revision-dependent fields listed in the evidence assumptions are not asserted"),
 "C07":("runtime monitoring: lossless-or-error oracle over full leaf-type domains, stream framing monitor against spec-built byte strings, and recorded registration histories checked against a sequential registry model (worker watchdogs turn hangs / memory blow-ups into attributed violations)",
        "held on the executions observed; small payloads get the full product of leaf domains, registered sizes are enumerated for all 512 (direction, CID) pairs",
        "trusted: field ranges of harness/spec/wire.go; DwellTime enum values other than its constants are not generated"),
 "C12":("runtime monitoring: complete sweep of every band configuration through the real API under recover(), judged by an independent Regional-Parameters model and the hook snapshot (downlink-capability of results)",
        "held on the executions observed; the (config x uplink DR x offset) and (config x channel) spaces are enumerated completely in both tiers, ping-slot inputs are sampled",
        "trusted: the regional rules transcribed in harness/spec/regional.go; LR-FHSS rows checked structurally only"),
 "C13":("runtime monitoring: complete sweep of (config x version x revision x DR) through the real lookup API compared with a fallback model over the hook snapshot; closure, inverse-lookup and size-relation invariants; reference tables from the Regional Parameters",
        "held on the executions observed; the finite space is enumerated completely in both tiers",
        "trusted: harness/spec/regional.go reference values; (0,0) cells are N/A"),
 "C17":("runtime monitoring: round-trip oracle over exhaustive/dense numeric sweeps and reflection-generated payload structs; RFC 3394 reference model for key envelopes with tampering",
        "held on the executions observed; Percentage 0..1000 exhaustive, Frequency dense (thorough: every 100 Hz step to 2.5 GHz)",
        "trusted: encoding/json, time, crypto/aes; harness RFC 3394 implementation"),
 "C04":("runtime monitoring: reference-model monitor (own CMAC, own LE serialisation, own AES-ECB) next to every join MIC / join-accept encrypt / decrypt call, with single-field perturbation rounds and a device-side decrypt model",
        "held on the executions observed: every MIC and ciphertext the library produces for generated join messages equals the independently computed spec value, and Validate agrees with the model on every single-field perturbation tried",
        "trusted: crypto/aes; harness CMAC; LoRaWAN 1.1 §6.2 join-accept MIC/encryption rules"),
 "C11":("runtime monitoring: integer-arithmetic reference model of the NetID/DevAddr rules compared on enumerated NetIDs (all 2^24 in the thorough tier) and near-miss addresses; representation round trips and wrong-length rejection on generated identifiers",
        "quick: held on a stride-97 + boundary sample of NetIDs; thorough: exhaustive over all 2^24 NetIDs x 4 DevAddrs; representation checks held on the generated values and every wrong length 0..2n",
        "trusted: the prefix-length / NwkID-width table of the property statement"),
 "C19":("runtime monitoring: independent TS004 matrix_line/prbs23 model + GF(2) erasure decoder judging real Encode executions; linearity oracle; invalid-argument probes under recover()",
        "held on the executions observed (thorough: the complete fragment-size x fragment-count grid once, plus erasure trials)",
        "trusted: TS004-1.0.0 §8 pseudo code as transcribed in harness/spec/frag.go"),
 "C20":("runtime monitoring: independent leap-second table, exact-rational AN1200.13 model and own EIRP table compared with every call; dense boundary neighbourhoods; thorough tier sweeps the complete airtime grid and every float32 >= 8",
        "held on the executions observed; the airtime grid and the float32 domain are enumerated completely in the thorough tier",
        "trusted: IERS leap-second dates, AN1200.13 formula, TXParamSetup EIRP table"),
 "C01":("runtime monitoring: round-trip (inverse) oracle plus comparison with the spec model's own serialisation / join-accept ciphertext, over seeded structure-aware and boundary-enumerated executions of the real encoder/decoder (fresh values, values edited after a decode or after a refused encode)",
        "held on the executions observed: the real Marshal*/Unmarshal* are run on a large seeded, structure-aware workload plus the complete header-length boundary grid and each execution is judged field by field",
        "trusted: Go standard library, the harness generators; paths the workload does not drive are not covered"),
 "C02":("runtime monitoring: reference-model monitor (own RFC 4493 CMAC + spec B0/B1 + own serialisation) next to every Set/Validate call, with single-input perturbation rounds",
        "held on the executions observed: every MIC the library sets is compared with an independently computed spec MIC, and Validate must agree exactly with the model on ~20 single-input perturbations per frame",
        "trusted: crypto/aes; the harness' CMAC and block construction written from RFC 4493 / LoRaWAN 1.0.x+1.1 §4.4"),
 "C03":("runtime monitoring: reference keystream model (own A_i blocks on crypto/aes) compared with every encrypt call; all lengths enumerated; transform-or-error oracle on over-long FOpts",
        "held on the executions observed: all payload lengths 0..255 and FOpts lengths 0..32 for the exported functions (enumerated), plus generated frames through the PHYPayload methods",
        "trusted: crypto/aes; FOpts block per the 1.1 FOpts-encryption erratum"),
}
m={
 "version":1,
 "setup_cmd":"./check.sh --build",
 "hooks":{"guard":"verif (Go build tag)","enable":"go build -tags verif (check.sh builds the harness, whose go.mod replaces github.com/brocaar/lorawan with /repo's working tree)","baseline_off_cmd":"cd /repo && GOFLAGS=-mod=mod GOPROXY=off GOSUMDB=off go test -vet=off -count=1 -timeout 25m ./...","source_commits":HOOK_COMMITS,"add_only":True},
 "engines":[{"name":"lwmon","path":"harness/cmd/lwmon","serves_properties":sorted(DONE),"kind_free_text":"Go runtime-monitoring harness: a parent spawns worker processes that drive the real library (built from /repo with -tags verif) under reference-model, trace and memory-effect monitors; a -race build runs the concurrent workloads; porcupine checks recorded registry histories"}],
 "checks":[],
 "not_applicable":[],
 "notes":"See DESIGN.md. Exit 0 = held on everything observed (KNOWN-FINDING lines for keys listed in known_findings.json); exit 1 + VIOLATION line = violation whose key is not listed; exit 3 = inconclusive (never expected on the unchanged tree). mutants/ and seeded/ hold compile-clean, suite-green breakages used to validate the monitors."
}
for p in props:
    i=p['id']
    if i in DONE:
        t,lt,ln=DONE[i]
        m['checks'].append({"property_id":i,"quick_cmd":"./check.sh %s quick"%i,"thorough_cmd":"./check.sh %s thorough"%i,
          "evidence_file":"/verif/evidence/%s.json"%i,"replay_cmd_template":"./check.sh %s --replay {path}"%i,"engine":"lwmon",
          "level_claimed":{"category":"exploration","text":lt,"design_ref":"DESIGN.md §3 "+i},"level_note":ln,"technique":t})
    else:
        m['not_applicable'].append({"property_id":i,"reason":"monitor not yet built in this round (planned in DESIGN.md §3; the family applies)"})
json.dump(m,open('/verif/MANIFEST.json','w'),indent=1)
print(len(m['checks']),'checks',len(m['not_applicable']),'not applicable')
