#!/bin/bash
# usage: devcheck.sh <patch.diff> <ID> [ID...]    (self-test of the monitors, not a check)
# Like mutant-test.sh but never touches /repo: the patch is applied in a throw-away
# worktree under /tmp and a throw-away copy of the harness is built against that
# worktree. For use while a background run is reading /repo. Evidence and replays of
# these runs land in the throw-away root and are deleted with it.
export GOFLAGS=-mod=mod GOPROXY=off GOSUMDB=off GOTOOLCHAIN=local GOWORK=off CGO_ENABLED=1
P="$(readlink -f "$1")"; shift
T=$(mktemp -d /tmp/devcheck.XXXXXX)
trap 'git -C /repo worktree remove --force "$T/wt" >/dev/null 2>&1; rm -rf "$T"; git -C /repo worktree prune' EXIT
git -C /repo worktree add -q --detach "$T/wt" HEAD || exit 2
( cd "$T/wt" && git apply "$P" ) || { echo "patch does not apply"; exit 2; }
mkdir -p "$T/root"
cp -r /verif/harness "$T/root/harness"
cp /verif/known_findings.json /verif/properties.jsonl "$T/root/"
sed -i "s#=> /repo#=> $T/wt#" "$T/root/harness/go.mod"
for id in "$@"; do
  RACE=()
  ( cd "$T/root/harness" && go build -tags verif -o "$T/lwmon" ./cmd/lwmon ) || { echo "build failed"; exit 2; }
  case "$id" in C10|C16) ( cd "$T/root/harness" && go build -race -tags verif -o "$T/lwmon-race" ./cmd/lwmon ) && RACE=(-racebin "$T/lwmon-race");; esac
  A386=()
  ( cd "$T/root/harness" && GOARCH=386 CGO_ENABLED=0 go build -tags verif -o "$T/lwmon-386" ./cmd/lwmon ) 2>/dev/null && A386=(-bin386 "$T/lwmon-386")
  out=$("$T/lwmon" run -prop "$id" -tier "${TIER:-quick}" -root "$T/root" -repo "$T/wt" "${RACE[@]}" "${A386[@]}" 2>&1); rc=$?
  echo "== $id exit=$rc  $(echo "$out" | grep -c '^VIOLATION') violation line(s)"
  echo "$out" | grep -A2 '^VIOLATION' | cut -c1-600 | head -${LINES_SHOWN:-9}
done
