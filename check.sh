#!/bin/bash
# Entry point of every registered check:
#   ./check.sh <ID> quick|thorough        run the monitors of one property
#   ./check.sh <ID> --replay <file>       re-execute one recorded case
#   ./check.sh --build                    build (warm the Go build cache); used by setup_cmd
# Builds the harness against /repo's *current working tree* (replace directive,
# build tag verif) on every invocation; the Go build cache keeps that cheap.
set -u
ROOT="$(cd "$(dirname "$0")" && pwd)"
export GOFLAGS=-mod=mod GOPROXY=off GOSUMDB=off GOTOOLCHAIN=local GOWORK=off
export CGO_ENABLED=1
HARNESS="$ROOT/harness"
BIN="$ROOT/.bin"
mkdir -p "$BIN"

build() { # $1 = output name, extra flags follow
  local out="$1"; shift
  ( cd "$HARNESS" && go build -tags verif "$@" -o "$out.tmp.$$" ./cmd/lwmon ) || return 1
  mv -f "$out.tmp.$$" "$out"
}

needs_race() { case "$1" in C10|C16) return 0;; *) return 1;; esac; }

# the same harness + library as a 32-bit binary (GOARCH=386, no cgo): a sample of every check's cases is
# re-run in it. If this toolchain cannot build or run 386 binaries the pass is skipped (reported as a note).
build386() { # $1 = output
  ( cd "$HARNESS" && GOARCH=386 CGO_ENABLED=0 go build -tags verif -o "$1.tmp.$$" ./cmd/lwmon ) 2> "$1.log" || return 1
  mv -f "$1.tmp.$$" "$1"
  "$1" list > /dev/null 2>&1
}

if [ "${1:-}" = "--build" ]; then
  build "$BIN/lwmon" || { echo "BUILD FAILED"; exit 2; }
  build "$BIN/lwmon-race" -race || { echo "RACE BUILD FAILED"; exit 2; }
  build386 "$BIN/lwmon-386" || echo "note: no GOARCH=386 binary (32-bit pass will be skipped)"
  echo "build ok"
  exit 0
fi

ID="${1:?property id}"
MODE="${2:-${VERIF_TIER:-quick}}"
mkdir -p "$BIN/$ID"
if ! build "$BIN/$ID/lwmon" 2> "$BIN/$ID/build.log"; then
  cat "$BIN/$ID/build.log"
  echo "BUILD FAILED for $ID (the harness does not compile against /repo's working tree)"
  echo "INCONCLUSIVE property=$ID build failed"
  exit 2
fi
RACEARGS=()
if needs_race "$ID"; then
  if ! build "$BIN/$ID/lwmon-race" -race 2> "$BIN/$ID/build-race.log"; then
    cat "$BIN/$ID/build-race.log"
    echo "INCONCLUSIVE property=$ID race build failed"
    exit 2
  fi
  RACEARGS=(-racebin "$BIN/$ID/lwmon-race")
fi

ARCHARGS=()
if [ "${VERIF_NO386:-0}" != 1 ] && build386 "$BIN/$ID/lwmon-386"; then
  ARCHARGS=(-bin386 "$BIN/$ID/lwmon-386")
else
  echo "NOTE: GOARCH=386 binary not available; the 32-bit pass is skipped"
fi

if [ "$MODE" = "--replay" ]; then
  FILE="${3:?replay file}"
  if grep -q '"arch": "386"' "$FILE" && [ ${#ARCHARGS[@]} -gt 0 ]; then
    exec "$BIN/$ID/lwmon-386" replay -file "$FILE"
  fi
  if needs_race "$ID" && grep -q '"race": true' "$FILE"; then
    exec "$BIN/$ID/lwmon-race" replay -file "$FILE"
  fi
  exec "$BIN/$ID/lwmon" replay -file "$FILE"
fi

exec "$BIN/$ID/lwmon" run -prop "$ID" -tier "$MODE" -root "$ROOT" "${RACEARGS[@]}" "${ARCHARGS[@]}"
