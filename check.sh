#!/bin/bash
# Entry point of every registered check:
#   ./check.sh <ID> quick|thorough        run the monitors of one property
#   ./check.sh <ID> --replay <file>       re-execute one recorded case
#   ./check.sh --build                    build (warm the Go build cache); used by setup_cmd
# Builds the harness against /repo's *current working tree* (replace directive,
# build tag verif) on every invocation; the Go build cache keeps that cheap.
set -u
ROOT="$(cd "$(dirname "$0")" && pwd)"
export GOFLAGS=-mod=mod GOPROXY=off GOSUMDB=off GOTOOLCHAIN=local GOWORK=off
export CGO_ENABLED=1
HARNESS="$ROOT/harness"
BIN="$ROOT/.bin"
mkdir -p "$BIN"

build() { # $1 = output name, extra flags follow
  local out="$1"; shift
  ( cd "$HARNESS" && go build -tags verif "$@" -o "$out.tmp.$$" ./cmd/lwmon ) || return 1
  mv -f "$out.tmp.$$" "$out"
}

needs_race() { case "$1" in C10|C16) return 0;; *) return 1;; esac; }

if [ "${1:-}" = "--build" ]; then
  build "$BIN/lwmon" || { echo "BUILD FAILED"; exit 2; }
  build "$BIN/lwmon-race" -race || { echo "RACE BUILD FAILED"; exit 2; }
  echo "build ok"
  exit 0
fi

ID="${1:?property id}"
MODE="${2:-${VERIF_TIER:-quick}}"
mkdir -p "$BIN/$ID"
if ! build "$BIN/$ID/lwmon" 2> "$BIN/$ID/build.log"; then
  cat "$BIN/$ID/build.log"
  echo "BUILD FAILED for $ID (the harness does not compile against /repo's working tree)"
  echo "INCONCLUSIVE property=$ID build failed"
  exit 2
fi
RACEARGS=()
if needs_race "$ID"; then
  if ! build "$BIN/$ID/lwmon-race" -race 2> "$BIN/$ID/build-race.log"; then
    cat "$BIN/$ID/build-race.log"
    echo "INCONCLUSIVE property=$ID race build failed"
    exit 2
  fi
  RACEARGS=(-racebin "$BIN/$ID/lwmon-race")
fi

if [ "$MODE" = "--replay" ]; then
  FILE="${3:?replay file}"
  if needs_race "$ID" && grep -q '"race": true' "$FILE"; then
    exec "$BIN/$ID/lwmon-race" replay -file "$FILE"
  fi
  exec "$BIN/$ID/lwmon" replay -file "$FILE"
fi

exec "$BIN/$ID/lwmon" run -prop "$ID" -tier "$MODE" -root "$ROOT" "${RACEARGS[@]}"
