#!/bin/bash
# usage: mutant-test.sh <patch.diff> <ID> [ID...]   (self-test of the monitors, not a check)
# applies a patch to /repo's working tree, runs the quick checks named, reverts.
P="$(readlink -f "$1")"; shift
cd /repo || exit 2
if ! git diff --quiet; then echo "/repo has uncommitted changes"; exit 2; fi
git apply "$P" || { echo "patch does not apply"; exit 2; }
trap 'git -C /repo checkout -- . ; git -C /repo clean -fdq -e verif_hooks.go' EXIT
for id in "$@"; do
  out=$(cd /verif && ./check.sh "$id" quick 2>&1); rc=$?
  echo "== $id exit=$rc  $(echo "$out" | grep -c '^VIOLATION') violation line(s)"
  echo "$out" | grep -A2 '^VIOLATION' | head -${LINES_SHOWN:-9}
done
