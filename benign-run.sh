#!/bin/bash
# usage: benign-run.sh <dir-with-patch.diff>... (self-test of the monitors, not a check)
# Runs the quick tier of the listed properties (IDS, default: all twenty) against each
# behaviour-preserving change in a throw-away worktree (devcheck.sh) and reports every
# check that did not exit 0: on a change that keeps the properties, any alarm is a false alarm.
IDS=${IDS:-C01 C02 C03 C04 C05 C06 C07 C08 C09 C10 C11 C12 C13 C14 C15 C16 C17 C18 C19 C20}
OUT=${OUT:-/tmp/benign-out}
mkdir -p "$OUT"
cd "$(dirname "$0")"
for d in "$@"; do
  name=$(basename "$(dirname "$(dirname "$d")")")$(basename "$d")
  LINES_SHOWN=6 ./devcheck.sh "$d/patch.diff" $IDS > "$OUT/$name.log" 2>&1
  bad=$(grep '^== ' "$OUT/$name.log" | grep -v 'exit=0 ' | tr '\n' ' ')
  n=$(grep -c '^== ' "$OUT/$name.log")
  echo "$name: $n checks run; not silent: ${bad:-none}"
done
